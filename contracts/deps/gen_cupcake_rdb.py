#!/usr/bin/env python3
# regenerates contracts/deps/cupcake-rdb-encoder.spec from the Encoder contracts of the in-repo cupcake hook file
import re
src=open('/repo/src/pkg/libs/cupcake/rdb/zz_contracts_verif.go').read().split('\n')
want=['EncodeLength','EncodeType','encodeIntString','EncodeString','EncodeDatabase','EncodeExpiry','EncodeFloat']
out=["// Contracts of the dependency github.com/cupcake/rdb (module cache), which pkg/rdb's EncodeDump and file encoder use:",
     "// the same contracts as for the in-repo copy pkg/libs/cupcake/rdb (generated from its hook file by contracts/deps/gen_cupcake_rdb.py),",
     "// checked against the dependency's own source.",""]
i=0
while i<len(src):
    m=re.match(r'//@ func \(\*Encoder\)\.(\w+)\s*$',src[i])
    if m and m.group(1) in want:
        out.append('func (*github.com/cupcake/rdb.Encoder).'+m.group(1)); i+=1
        while i<len(src) and src[i].startswith('//@  '):
            out.append(src[i][3:]); i+=1
        out.append(''); continue
    i+=1
open('/verif/contracts/deps/cupcake-rdb-encoder.spec','w').write('\n'.join(out))
