package rdb

import (
	"bytes"
	"encoding/binary"
	"testing"
)

// one value item as zipmap.c lays it out: <len><free>value, <len> = 1 byte below 254, else 254 + LE uint32
func zmValueItem(n int) ([]byte, []byte) {
	val := bytes.Repeat([]byte{'x'}, n)
	var b []byte
	if n < 254 {
		b = append(b, byte(n))
	} else {
		b = append(b, 254, 0, 0, 0, 0)
		binary.LittleEndian.PutUint32(b[1:], uint32(n))
	}
	b = append(b, 0) // free
	b = append(b, val...)
	b = append(b, 255)
	return b, val
}

func TestZipmapItemLengthsPkgRdb(t *testing.T) {
	r := &rdbReader{}
	for _, n := range []int{10, 252, 253, 254, 300} {
		raw, val := zmValueItem(n)
		got, err := r.ReadZipmapItem(NewSliceBuffer(raw), true)
		if err != nil {
			t.Errorf("value length %d: error %v", n, err)
			continue
		}
		if !bytes.Equal(got, val) {
			t.Errorf("value length %d: got %d bytes", n, len(got))
		}
	}
}
