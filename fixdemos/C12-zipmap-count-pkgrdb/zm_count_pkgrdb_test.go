package rdb

import (
	"bytes"
	"testing"
)

// The element-wise restore of a big zipmap hash (restoreBigRdbEntry) reads <zmlen>, and when it is 254 or more calls
// CountZipmapItems and then reads the pairs.  One pair, <zmlen> = 254: the pair must still be read.
func TestCountZipmapItemsKeepsCursor(t *testing.T) {
	zm := []byte{254, 5, 'f', 'i', 'e', 'l', 'd', 5, 0, 'v', 'a', 'l', 'u', 'e', 255}
	r := &rdbReader{}
	buf := NewSliceBuffer(zm)
	if b, err := buf.ReadByte(); err != nil || b != 254 {
		t.Fatal(b, err)
	}
	n, err := r.CountZipmapItems(buf)
	if err != nil || n != 2 {
		t.Fatalf("count %d err %v", n, err)
	}
	field, err := r.ReadZipmapItem(buf, false)
	if err != nil || !bytes.Equal(field, []byte("field")) {
		t.Fatalf("field %q err %v", field, err)
	}
	value, err := r.ReadZipmapItem(buf, true)
	if err != nil || !bytes.Equal(value, []byte("value")) {
		t.Fatalf("value %q err %v", value, err)
	}
}
