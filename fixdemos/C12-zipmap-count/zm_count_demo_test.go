package rdb_test

import (
	"bytes"
	"encoding/binary"
	"testing"

	"github.com/alibaba/RedisShake/pkg/libs/cupcake/rdb"
	"github.com/alibaba/RedisShake/pkg/libs/cupcake/rdb/crc64"
	"github.com/alibaba/RedisShake/pkg/libs/cupcake/rdb/nopdecoder"
)

type hashDec struct {
	nopdecoder.NopDecoder
	fields, values [][]byte
}

func (d *hashDec) Hset(key, field, value []byte) {
	d.fields = append(d.fields, append([]byte(nil), field...))
	d.values = append(d.values, append([]byte(nil), value...))
}

// zipmap as zipmap.c (zipmapSet) lays it out: <zmlen> {<len>key <len><free>value}* 0xFF,
// <len> = 1 byte below 254, else 254 + 4-byte little-endian length
func zmLen(n int) []byte {
	if n < 254 {
		return []byte{byte(n)}
	}
	b := make([]byte, 5)
	b[0] = 254
	binary.LittleEndian.PutUint32(b[1:], uint32(n))
	return b
}

func dumpOfZipmap(zmlen byte, field, value []byte) []byte {
	var zm bytes.Buffer
	zm.WriteByte(zmlen)
	zm.Write(zmLen(len(field)))
	zm.Write(field)
	zm.Write(zmLen(len(value)))
	zm.WriteByte(0)
	zm.Write(value)
	zm.WriteByte(255)
	var p bytes.Buffer
	p.WriteByte(9) // RDB_TYPE_HASH_ZIPMAP
	// rdb string: 32-bit length form
	p.WriteByte(0x80)
	var l [4]byte
	binary.BigEndian.PutUint32(l[:], uint32(zm.Len()))
	p.Write(l[:])
	p.Write(zm.Bytes())
	p.Write([]byte{byte(rdb.Version), 0})
	sum := crc64.Digest(p.Bytes())
	var s [8]byte
	binary.LittleEndian.PutUint64(s[:], sum)
	p.Write(s[:])
	return p.Bytes()
}

// zipmap.c: <zmlen> is the number of pairs while that is below 254; "if greater than or equal to 254, this value is
// not used and the zipmap needs to be traversed to find out the length".  One pair under each header form.
func TestZipmapCountedLength(t *testing.T) {
	for _, zmlen := range []byte{1, 254} {
		d := &hashDec{}
		err := rdb.DecodeDump(dumpOfZipmap(zmlen, []byte("field"), []byte("value")), 0, []byte("k"), 0, d)
		if err != nil {
			t.Errorf("zmlen %d: error %v", zmlen, err)
			continue
		}
		if len(d.values) != 1 || !bytes.Equal(d.values[0], []byte("value")) || !bytes.Equal(d.fields[0], []byte("field")) {
			t.Errorf("zmlen %d: decoded %d pairs %q %q", zmlen, len(d.values), d.fields, d.values)
		}
	}
}
