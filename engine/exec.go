package main

// Symbolic executor over go/ssa (NaiveForm): path-by-path between cut points,
// generating proof obligations.

import (
	"fmt"
	"go/constant"
	"go/token"
	"go/types"
	"math/big"
	"os"
	"sort"
	"strings"

	"golang.org/x/tools/go/ssa"
)

type Query struct {
	Hyps  []*Term
	Goal  *Term
	Path  string
	Model []*Term
	// filled by the solver stage
	Result      string
	Solver      string
	Seconds     float64
	Output      string
	Script      string
	ScriptG     string
	ScriptsPart []string
	Hints       map[string][]*Term
	Names       []string
	MNames      []string
}

type Oblig struct {
	X       *Exec
	Expr    *SExpr
	BV      bool
	Name    string
	Fn      string
	Kind    string
	Label   string
	Src     string
	Where   string
	Queries []*Query
	Partial bool // cover obligations: not every path of the site was probed (never reported vacuous)
}

type deferred struct {
	call *ssa.Defer
	args []Val
	fnv  Val
}

type State struct {
	regs    map[ssa.Value]Val
	locals  map[*ssa.Alloc]Val
	heap    map[string]*Term
	pc      []*Term
	ghost   map[string]*Term
	brk     *Term
	trace   []string
	defers  map[int][]deferred
	dead    bool
	callLog []string
	defined map[string]bool // ground atoms whose definition has been assumed on this path
	callOrd map[string]int  // per-path count of executed calls by frame depth and callee (dynamic call ordinals)
}

func (s *State) clone() *State {
	n := &State{
		regs:   make(map[ssa.Value]Val, len(s.regs)),
		locals: make(map[*ssa.Alloc]Val, len(s.locals)),
		heap:   make(map[string]*Term, len(s.heap)),
		ghost:  make(map[string]*Term, len(s.ghost)),
		defers: make(map[int][]deferred, len(s.defers)),
		brk:    s.brk,
	}
	for k, v := range s.regs {
		n.regs[k] = v
	}
	for k, v := range s.locals {
		n.locals[k] = v
	}
	for k, v := range s.heap {
		n.heap[k] = v
	}
	for k, v := range s.ghost {
		n.ghost[k] = v
	}
	for k, v := range s.defers {
		n.defers[k] = append([]deferred(nil), v...)
	}
	n.pc = append([]*Term(nil), s.pc...)
	n.trace = append([]string(nil), s.trace...)
	n.callLog = append([]string(nil), s.callLog...)
	if s.callOrd != nil {
		n.callOrd = make(map[string]int, len(s.callOrd))
		for k, v := range s.callOrd {
			n.callOrd[k] = v
		}
	}
	if s.defined != nil {
		n.defined = make(map[string]bool, len(s.defined))
		for k := range s.defined {
			n.defined[k] = true
		}
	}
	return n
}

func substVal(v Val, m map[string]*Term) Val {
	if v.A != nil || len(v.L) == 0 {
		return v
	}
	n := v
	n.L = make([]*Term, len(v.L))
	for i, l := range v.L {
		n.L[i] = Subst(l, m)
	}
	return n
}

// substitute replaces input variables by terms throughout the state.
func (s *State) substitute(m map[string]*Term) {
	for k, v := range s.regs {
		s.regs[k] = substVal(v, m)
	}
	for k, v := range s.locals {
		s.locals[k] = substVal(v, m)
	}
	for k, v := range s.heap {
		s.heap[k] = Subst(v, m)
	}
	for k, v := range s.ghost {
		s.ghost[k] = Subst(v, m)
	}
	var pc []*Term
	for _, t := range s.pc {
		t2 := Subst(t, m)
		if !t2.IsTrue() {
			pc = append(pc, t2)
		}
	}
	s.pc = pc
}

func (s *State) assume(t *Term) {
	if t.IsTrue() {
		return
	}
	if t.Op == "and" {
		for _, a := range t.Args {
			s.assume(a)
		}
		return
	}
	s.pc = append(s.pc, t)
}

type Frame struct {
	fn       *ssa.Function
	fc       *FuncContract
	parent   *Frame
	ret      func(st *State, results []Val)
	entry    *State
	params   map[string]Val
	depth    int
	loops    *loopInfo
	callOrd  map[string]int
	freeVars []Val
}

type Exec struct {
	curSite   ssa.Instruction // the call instruction being executed (for static call-site ordinals)
	callBinds []Val           // captured-variable cells of the closure being called modularly
	E         *Engine
	fn        *ssa.Function
	fc        *FuncContract
	tc        *TypeCtx
	npaths    int
	maxPath   int
	dry       bool
	dryEff    *effects
	aborted   string
	topFrame  *Frame
	caseName  string
	nret      int
	retSite   string         // position of the return statement being executed (top frame)
	retSiteN  map[string]int // paths seen per return site
	curFr     *Frame
	mterms    []*Term
	mnames    []string
	mtermsFor *Frame
}

type effects struct {
	locals map[*ssa.Alloc]bool
	heap   map[string]bool    // heap keys (leaf-level)
	refs   map[string][]*Term // refs written per key (nil entry = whole array)
	whole  map[string]bool
	all    bool
	ghost  map[string]bool
}

func newEffects() *effects {
	return &effects{locals: map[*ssa.Alloc]bool{}, heap: map[string]bool{}, ghost: map[string]bool{}, refs: map[string][]*Term{}, whole: map[string]bool{}}
}

// effHeap records a write to heap key k at object/backing-store ref (nil: unknown).
func (x *Exec) effHeap(k string, ref *Term) {
	if !x.dry {
		return
	}
	x.dryEff.heap[k] = true
	if ref == nil {
		x.dryEff.whole[k] = true
	} else {
		x.dryEff.refs[k] = append(x.dryEff.refs[k], ref)
	}
}

// ---------------------------------------------------------------- engine-level helpers

func (E *Engine) fresh(prefix string, s *Sort) *Term {
	E.nfresh++
	return Var(fmt.Sprintf("%s!%d", prefix, E.nfresh), s)
}

func (x *Exec) freshVal(prefix string, t types.Type, st *State) Val {
	ls := x.tc.leaves(t)
	v := Val{T: t, L: make([]*Term, len(ls))}
	for i, l := range ls {
		n := prefix
		if l.Path != "" {
			n += "." + l.Path
		}
		v.L[i] = x.E.fresh(n, l.S)
		if l.S.K == SInt && (l.Path == "ref" || strings.HasSuffix(l.Path, ".ref") || l.Path == "tag" || strings.HasSuffix(l.Path, ".tag") || (l.T != nil && isRefLike(l.T))) {
			refVars[v.L[i].Name] = true
		}
	}
	if st != nil {
		st.assume(x.typeInv(v, st))
	}
	return v
}

// typeInv: the facts every value of a Go type satisfies (integer ranges, slice
// header sanity, references below the allocation frontier).
func (x *Exec) typeInv(v Val, st *State) *Term {
	if v.T == nil || v.A != nil {
		return TrueT
	}
	var facts []*Term
	x.typeInvRec(v.T, v.L, st, &facts)
	return And(facts...)
}

func (x *Exec) idxConst(n int64) *Term {
	if x.tc.bv {
		return BVC(big.NewInt(n), 64)
	}
	return IntC(n)
}

func (x *Exec) typeInvRec(t types.Type, L []*Term, st *State, facts *[]*Term) {
	switch u := t.Underlying().(type) {
	case *types.Basic:
		if u.Info()&types.IsString != 0 {
			// (string constants live at negative references: no lower bound on the reference of a string)
			x.stringInv(L[0], L[1], L[2], st, facts)
			return
		}
		if L[0].S.K == SInt && u.Info()&types.IsInteger != 0 {
			*facts = append(*facts, rangeFact(L[0], t))
		}
	case *types.Slice:
		x.sliceInv(L[0], L[1], L[2], L[3], st, facts)
	case *types.Pointer, *types.Map, *types.Chan, *types.Signature:
		*facts = append(*facts, Le(IntC(0), L[0]))
		if st != nil && st.brk != nil {
			*facts = append(*facts, Lt(L[0], st.brk))
		}
	case *types.Interface:
		// tag 0 <=> nil interface; then payload 0
		*facts = append(*facts, Le(IntC(0), L[0]), Implies(Eq(L[0], IntC(0)), Eq(L[1], IntC(0))))
		if st != nil && st.brk != nil {
			*facts = append(*facts, Lt(L[1], st.brk))
		}
	case *types.Struct:
		off := 0
		for i := 0; i < u.NumFields(); i++ {
			n := x.tc.nleaves(u.Field(i).Type())
			x.typeInvRec(u.Field(i).Type(), L[off:off+n], st, facts)
			off += n
		}
	case *types.Tuple:
		off := 0
		for i := 0; i < u.Len(); i++ {
			n := x.tc.nleaves(u.At(i).Type())
			x.typeInvRec(u.At(i).Type(), L[off:off+n], st, facts)
			off += n
		}
	}
}

func (x *Exec) stringInv(ref, off, ln *Term, st *State, facts *[]*Term) {
	if st != nil && st.brk != nil {
		*facts = append(*facts, Lt(ref, st.brk))
	}
	if x.tc.bv {
		max := BVC(Pow2(40), 64)
		*facts = append(*facts, BVCmp("bvule", ln, max), BVCmp("bvule", off, max))
		return
	}
	*facts = append(*facts, Le(IntC(0), off), Le(IntC(0), ln),
		Le(Add(off, ln), BigC(Pow2(62))),
		Implies(Eq(ref, IntC(0)), Eq(ln, IntC(0))))
}

func (x *Exec) sliceInv(ref, off, ln, cp *Term, st *State, facts *[]*Term) {
	*facts = append(*facts, Le(IntC(0), ref))
	if st != nil && st.brk != nil {
		*facts = append(*facts, Lt(ref, st.brk))
	}
	if x.tc.bv {
		max := BVC(Pow2(40), 64)
		*facts = append(*facts, BVCmp("bvule", ln, cp), BVCmp("bvule", cp, max), BVCmp("bvule", off, max))
		return
	}
	*facts = append(*facts, Le(IntC(0), off), Le(IntC(0), ln), Le(ln, cp),
		Le(Add(off, cp), BigC(Pow2(62))),
		Implies(Eq(ref, IntC(0)), Eq(cp, IntC(0))))
}

// ---------------------------------------------------------------- heap access

func hkey(kind, tkey string, leaf int) string { return fmt.Sprintf("%s|%s|%d", kind, tkey, leaf) }

func (x *Exec) heapArr(st *State, key string, s *Sort) *Term {
	if a, ok := st.heap[key]; ok {
		return a
	}
	a := Var("$"+sanitize(key)+"@0", s)
	st.heap[key] = a
	return a
}

func (x *Exec) objSort(l leafInfo) *Sort { return ArrS(IntS, l.S) }
func (x *Exec) memSort(l leafInfo) *Sort {
	idx := IntS
	if x.tc.bv {
		idx = BVS(64)
	}
	return ArrS(IntS, ArrS(idx, l.S))
}

// loadAddr reads the value stored at a structured address.
func (x *Exec) loadAddr(st *State, a *Addr) Val {
	ls := x.tc.leaves(a.T)
	out := Val{T: a.T, L: make([]*Term, len(ls))}
	switch a.K {
	case ALocal:
		cell := st.locals[a.Alloc]
		if a.ArrIdx != nil {
			out.L[0] = Select(cell.L[a.Off], a.ArrIdx)
			return out
		}
		copy(out.L, cell.L[a.Off:a.Off+len(ls)])
		if a.Off == 0 && len(ls) == len(cell.L) && cell.Fn != nil {
			// a function literal kept in a local variable stays known
			out.Fn, out.Bindings = cell.Fn, cell.Bindings
		}
	case AHeap:
		all := x.tc.leaves(a.contT)
		for i := range ls {
			arr := x.heapArr(st, hkey("H", a.Key, a.Off+i), x.objSort(all[a.Off+i]))
			t := Select(arr, a.Ref)
			if a.ArrIdx != nil {
				t = Select(t, a.ArrIdx)
			}
			out.L[i] = t
		}
	case AElem:
		all := x.tc.leaves(a.contT)
		for i := range ls {
			arr := x.heapArr(st, hkey("M", a.Key, a.Off+i), x.memSort(all[a.Off+i]))
			t := Select(Select(arr, a.Ref), a.Idx)
			if a.ArrIdx != nil {
				t = Select(t, a.ArrIdx)
			}
			out.L[i] = t
		}
	case AGlobal:
		if a.Off == 0 && isErrorType(a.T) && x.E.isSentinel(a.Key) {
			id := x.E.sentinelID(a.Key)
			out.L[0], out.L[1] = IntC(int64(900000+id)), IntC(int64(-5000-id))
			return out
		}
		all := x.tc.leaves(a.contT)
		for i := range ls {
			g := x.heapArr(st, hkey("G", a.Key, a.Off+i), all[a.Off+i].S)
			if a.ArrIdx != nil {
				g = Select(g, a.ArrIdx)
			}
			out.L[i] = g
		}
	}
	return out
}

func (x *Exec) storeAddr(st *State, a *Addr, v Val) {
	ls := x.tc.leaves(a.T)
	if len(v.L) != len(ls) {
		panic(fmt.Sprintf("storeAddr: %d leaves into %v (%d)", len(v.L), a.T, len(ls)))
	}
	switch a.K {
	case ALocal:
		al := a.Alloc
		cell := st.locals[al]
		nl := append([]*Term(nil), cell.L...)
		if a.ArrIdx != nil {
			nl[a.Off] = Store(nl[a.Off], a.ArrIdx, v.L[0])
		} else {
			copy(nl[a.Off:], v.L)
		}
		nc := Val{T: cell.T, L: nl}
		if a.ArrIdx == nil && a.Off == 0 && len(v.L) == len(cell.L) {
			if _, isFn := v.Fn.(*ssa.Function); isFn {
				nc.Fn, nc.Bindings = v.Fn, v.Bindings
			}
		}
		st.locals[al] = nc
		if x.dry {
			x.dryEff.locals[al] = true
		}
	case AHeap:
		all := x.tc.leaves(a.contT)
		for i := range ls {
			k := hkey("H", a.Key, a.Off+i)
			arr := x.heapArr(st, k, x.objSort(all[a.Off+i]))
			nv := v.L[i]
			if a.ArrIdx != nil {
				nv = Store(Select(arr, a.Ref), a.ArrIdx, nv)
			}
			st.heap[k] = Store(arr, a.Ref, nv)
			x.effHeap(k, a.Ref)
		}
	case AElem:
		all := x.tc.leaves(a.contT)
		for i := range ls {
			k := hkey("M", a.Key, a.Off+i)
			arr := x.heapArr(st, k, x.memSort(all[a.Off+i]))
			inner := Select(arr, a.Ref)
			nv := v.L[i]
			if a.ArrIdx != nil {
				nv = Store(Select(inner, a.Idx), a.ArrIdx, nv)
			}
			st.heap[k] = Store(arr, a.Ref, Store(inner, a.Idx, nv))
			x.effHeap(k, a.Ref)
		}
	case AGlobal:
		all := x.tc.leaves(a.contT)
		for i := range ls {
			k := hkey("G", a.Key, a.Off+i)
			if a.ArrIdx != nil {
				g := x.heapArr(st, k, all[a.Off+i].S)
				st.heap[k] = Store(g, a.ArrIdx, v.L[i])
			} else {
				st.heap[k] = v.L[i]
			}
			x.effHeap(k, nil)
		}
	}
}

// ptrAddr converts a pointer value into a structured address of its pointee.
func (x *Exec) ptrAddr(p Val) *Addr {
	if p.A != nil {
		return p.A
	}
	pt, ok := p.T.Underlying().(*types.Pointer)
	if !ok {
		panic(fmt.Sprintf("ptrAddr on %v", p.T))
	}
	return &Addr{K: AHeap, Key: typeKey(pt.Elem()), Ref: p.L[0], T: pt.Elem(), contT: pt.Elem()}
}

// ---------------------------------------------------------------- obligations

func (x *Exec) oblige(st *State, kind, label string, goal *Term, src, where string) {
	if x.dry || st.dead {
		return
	}
	if kind == "safe" && x.curFr != nil && x.frameRecovers(x.curFr) {
		// inside a function that recovers from run-time panics the failure of a
		// safety condition is not an error: it is the path "the recovering
		// function returns through its deferred handler"
		if !goal.IsTrue() {
			st2 := st.clone()
			st2.assume(Not(goal))
			st2.trace = append(st2.trace, "panic:"+label)
			x.recoverPath(st2, x.curFr)
		}
		return
	}
	if kind == "safe" && x.fc != nil {
		// "nosafe KIND ...": the contract does not claim these run-time checks (reported as an assumption)
		if ns, ok := x.fc.Flags["nosafe"]; ok {
			for _, k := range strings.Fields(ns) {
				if k == label || k == "all" {
					x.E.noteAssumption(fmt.Sprintf("NOT CLAIMED (nosafe %s) in %s: run-time checks of this kind are assumed to pass", k, relName(x.fn)))
					return
				}
			}
		}
	}
	x.E.addOblig(x, st, kind, label, goal, src, where, nil)
}

func (x *Exec) fnName() string { return relName(x.fn) }

func relName(fn *ssa.Function) string {
	if fn.Pkg != nil {
		return fn.RelString(fn.Pkg.Pkg)
	}
	if fn.Parent() != nil && fn.Parent().Pkg != nil {
		return fn.RelString(fn.Parent().Pkg.Pkg)
	}
	return fn.RelString(nil)
}

func fnPkgPath(fn *ssa.Function) string {
	for f := fn; f != nil; f = f.Parent() {
		if f.Pkg != nil {
			return f.Pkg.Pkg.Path()
		}
	}
	if fn.Object() != nil && fn.Object().Pkg() != nil {
		return fn.Object().Pkg().Path()
	}
	return ""
}

func (x *Exec) pos(p token.Pos) string {
	if !p.IsValid() {
		return ""
	}
	ps := x.E.L.Fset.Position(p)
	return fmt.Sprintf("%s:%d", strings.TrimPrefix(ps.Filename, repoSrc+"/"), ps.Line)
}

// ---------------------------------------------------------------- loops

type loopInfo struct {
	heads []*ssa.BasicBlock       // sorted by index
	ord   map[*ssa.BasicBlock]int // 1-based ordinal
	body  map[*ssa.BasicBlock]map[*ssa.BasicBlock]bool
}

func computeLoops(fn *ssa.Function) *loopInfo {
	li := &loopInfo{ord: map[*ssa.BasicBlock]int{}, body: map[*ssa.BasicBlock]map[*ssa.BasicBlock]bool{}}
	for _, b := range fn.Blocks {
		for _, s := range b.Succs {
			if s.Dominates(b) { // back edge b -> s
				body := li.body[s]
				if body == nil {
					body = map[*ssa.BasicBlock]bool{s: true}
					li.body[s] = body
					li.heads = append(li.heads, s)
				}
				// nodes that reach b without passing s
				var stack []*ssa.BasicBlock
				if !body[b] {
					body[b] = true
					stack = append(stack, b)
				}
				for len(stack) > 0 {
					n := stack[len(stack)-1]
					stack = stack[:len(stack)-1]
					for _, p := range n.Preds {
						if !body[p] {
							body[p] = true
							stack = append(stack, p)
						}
					}
				}
			}
		}
	}
	sort.Slice(li.heads, func(i, j int) bool { return li.heads[i].Index < li.heads[j].Index })
	for i, h := range li.heads {
		li.ord[h] = i + 1
	}
	return li
}

// ---------------------------------------------------------------- running

func (x *Exec) abort(st *State, why string) {
	if x.dry {
		return
	}
	if x.aborted == "" {
		x.aborted = why
	}
	x.oblige(st, "unsupported", sanitizeLabel(why), FalseT, why, "")
	st.dead = true
}

func sanitizeLabel(s string) string {
	if len(s) > 60 {
		s = s[:60]
	}
	return strings.Map(func(r rune) rune {
		if r == ' ' || r == '\n' || r == '\t' {
			return '_'
		}
		return r
	}, s)
}

func (x *Exec) run(st *State, fr *Frame, b *ssa.BasicBlock, idx int, pred *ssa.BasicBlock) {
	if st.dead {
		return
	}
	if idx == 0 {
		if ord, isHead := fr.loops.ord[b]; isHead {
			if !x.loopHead(st, fr, b, pred, ord) {
				return
			}
		}
	}
	for i := idx; i < len(b.Instrs); i++ {
		if st.dead {
			return
		}
		x.curFr = fr
		switch in := b.Instrs[i].(type) {
		case *ssa.DebugRef:
		case *ssa.If:
			c := x.reg(st, fr, in.Cond).Term()
			x.branch(st, fr, b, c)
			return
		case *ssa.Jump:
			x.run(st, fr, b.Succs[0], 0, b)
			return
		case *ssa.Return:
			res := make([]Val, len(in.Results))
			for j, r := range in.Results {
				res[j] = x.reg(st, fr, r)
			}
			if fr.parent == nil {
				x.retSite = fmt.Sprintf("%d", returnOrdinal(fr.fn, in))
			}
			fr.ret(st, res)
			return
		case *ssa.Panic:
			if fr.fc != nil && fr.fc.Recovers || x.frameRecovers(fr) {
				x.recoverPath(st, fr)
				return
			}
			x.oblige(st, "safe", "panic", FalseT, "explicit panic reachable", x.pos(in.Pos()))
			return
		case *ssa.Call:
			ii := i
			x.call(st, fr, in, in.Common(), func(st2 *State, res Val) {
				if in.Type() != nil && !isEmptyTuple(in.Type()) {
					st2.regs[in] = res
				}
				x.run(st2, fr, b, ii+1, pred)
			})
			return
		case *ssa.Defer:
			d := deferred{call: in}
			for _, a := range in.Call.Args {
				d.args = append(d.args, x.reg(st, fr, a))
			}
			if !in.Call.IsInvoke() {
				if _, isFn := in.Call.Value.(*ssa.Function); !isFn {
					if _, isB := in.Call.Value.(*ssa.Builtin); !isB {
						d.fnv = x.reg(st, fr, in.Call.Value)
					}
				}
			} else {
				d.fnv = x.reg(st, fr, in.Call.Value)
			}
			st.defers[fr.depth] = append(st.defers[fr.depth], d)
		case *ssa.RunDefers:
			ii := i
			x.runDefers(st, fr, func(st2 *State) { x.run(st2, fr, b, ii+1, pred) })
			return
		case *ssa.Go:
			x.goStmt(st, fr, in)
		case *ssa.Store:
			addr := x.reg(st, fr, in.Addr)
			v := x.reg(st, fr, in.Val)
			a := x.ptrAddr(addr)
			x.checkNil(st, addr, x.pos(in.Pos()))
			x.checkFrame(st, fr, a, x.pos(in.Pos()))
			x.checkLock(st, fr, a, x.pos(in.Pos()))
			x.storeAddr(st, a, x.coerce(v, a.T))
		case *ssa.MapUpdate:
			x.mapUpdate(st, fr, in)
		case *ssa.Send:
			x.chanSend(st, fr, in)
		case *ssa.Phi:
			found := false
			for j, p := range b.Preds {
				if p == pred {
					st.regs[in] = x.coerce(x.reg(st, fr, in.Edges[j]), in.Type())
					found = true
					break
				}
			}
			if !found {
				x.abort(st, "phi without known predecessor")
				return
			}
		case ssa.Value:
			ii := i
			cont := x.value(st, fr, in, func(st2 *State) { x.run(st2, fr, b, ii+1, pred) })
			if cont {
				return
			}
		default:
			x.abort(st, fmt.Sprintf("instruction %T", in))
			return
		}
	}
}

func isEmptyTuple(t types.Type) bool {
	tt, ok := t.(*types.Tuple)
	return ok && tt.Len() == 0
}

func (x *Exec) frameRecovers(fr *Frame) bool {
	for f := fr; f != nil; f = f.parent {
		if f.fc != nil && f.fc.Recovers {
			return true
		}
	}
	return false
}

// recoverPath: a run-time panic inside a function annotated `recovers` becomes
// the path "the outermost recovering frame returns with havoc results".
func (x *Exec) recoverPath(st *State, fr *Frame) {
	f := fr
	for f != nil && !(f.fc != nil && f.fc.Recovers) {
		f = f.parent
	}
	if f == nil {
		return
	}
	// the deferred calls of the recovering function run with recover() != nil;
	// afterwards the function returns the current values of its named results
	// (unnamed results are unknown)
	st.ghost["panicking"] = TrueT
	x.curFr = f
	x.runDefers(st, f, func(st2 *State) {
		res := f.fn.Signature.Results()
		out := make([]Val, res.Len())
		for i := 0; i < res.Len(); i++ {
			name := res.At(i).Name()
			var found *ssa.Alloc
			if name != "" && name != "_" {
				for _, b := range f.fn.Blocks {
					for _, in := range b.Instrs {
						if l, ok := in.(*ssa.Alloc); ok && l.Comment == name && found == nil {
							found = l
						}
					}
				}
			}
			if found != nil {
				if v, ok := st2.locals[found]; ok {
					out[i] = v
					continue
				}
				if r, ok := st2.regs[found]; ok && found.Heap {
					out[i] = x.loadAddr(st2, x.ptrAddr(r))
					continue
				}
			}
			out[i] = x.freshVal("recovered", res.At(i).Type(), st2)
		}
		st2.ghost["recovered"] = TrueT
		delete(st2.ghost, "panicking")
		f.ret(st2, out)
	})
}

func (x *Exec) branch(st *State, fr *Frame, b *ssa.BasicBlock, c *Term) {
	if x.dry {
		// visit both successors once each
		x.run(st, fr, b.Succs[0], 0, b)
		x.run(st, fr, b.Succs[1], 0, b)
		return
	}
	if c.IsTrue() {
		x.run(st, fr, b.Succs[0], 0, b)
		return
	}
	if c.IsFalse() {
		x.run(st, fr, b.Succs[1], 0, b)
		return
	}
	x.npaths++
	if x.npaths > x.maxPath {
		x.abort(st, "path cap exceeded")
		return
	}
	prune := x.npaths > 48
	if x.fc != nil {
		if _, off := x.fc.Flags["noprune"]; off {
			prune = false // "flag noprune": no feasibility probes (cheap paths, many independent branches)
		}
		if _, on := x.fc.Flags["prune"]; on {
			prune = true // "flag prune": probe every branch (functions whose cases exclude most branches)
		}
	}
	st2 := st.clone()
	st.assume(c)
	st.trace = append(st.trace, fmt.Sprintf("b%d:T", b.Index))
	if !prune || x.E.feasible(st) {
		x.run(st, fr, b.Succs[0], 0, b)
	}
	st2.assume(Not(c))
	st2.trace = append(st2.trace, fmt.Sprintf("b%d:F", b.Index))
	if !prune || x.E.feasible(st2) {
		x.run(st2, fr, b.Succs[1], 0, b)
	}
}

// loopHead returns false when the path ends here.
func (x *Exec) loopHead(st *State, fr *Frame, b *ssa.BasicBlock, pred *ssa.BasicBlock, ord int) bool {
	back := pred != nil && b.Dominates(pred)
	if x.dry {
		if back {
			return false
		}
		key := fmt.Sprintf("dryvisit!%p", b)
		if st.ghost[key] != nil {
			return false
		}
		st.ghost[key] = TrueT
		return true
	}
	var spec *LoopSpec
	if fr.fc != nil {
		spec = fr.fc.Loops[ord]
	}
	if spec != nil {
		x.E.markLoopUsed(fr.fc, ord)
	}
	if fr != x.topFrame && x.fc != nil && x.fc.InlLoops != nil {
		// extra invariants the function under verification gives for a loop of an inlined callee
		for _, key := range []string{fullName(fr.fn) + fmt.Sprintf("#%d", ord), shortName(fullName(fr.fn)) + fmt.Sprintf("#%d", ord)} {
			if extra := x.fc.InlLoops[key]; extra != nil {
				merged := &LoopSpec{}
				if spec != nil {
					merged.Invariants = append(merged.Invariants, spec.Invariants...)
					merged.Decreases = spec.Decreases
				}
				merged.Invariants = append(merged.Invariants, extra.Invariants...)
				spec = merged
				break
			}
		}
	}
	env := x.envFor(st, fr)
	env.loopHead = true
	tag := fmt.Sprintf("%d", ord)
	if fr.fn != x.fn {
		tag = relName(fr.fn) + "." + tag
	}
	decKey := fmt.Sprintf("dec!%s!%d", relName(fr.fn), ord)
	if back {
		if !x.dry && fr == x.topFrame {
			// vacuity guard: some iteration of the loop body is completed by a satisfiable path
			if x.retSiteN == nil {
				x.retSiteN = map[string]int{}
			}
			site := "loop" + tag + ":backedge"
			x.retSiteN[site]++
			if x.retSiteN[site] <= 6 {
				x.E.addCover(x, st, site)
			} else if o, ok := x.E.obligs[fmt.Sprintf("%s.%s#cover:%s", shortPkg(fnPkgPath(x.fn)), relName(x.fn), site)]; ok {
				o.Partial = true
			}
		}
		if spec != nil {
			for _, c := range spec.Invariants {
				g, ok := x.specBool(env, c.E, "inv:"+tag+":"+labelOr(c, "inv"))
				if !ok {
					continue
				}
				x.oblige(st, "inv-preserved", tag+":"+labelOr(c, "inv"), g, c.Src, fmt.Sprintf("%s:%d", c.File, c.Line))
			}
			if spec.Decreases != nil {
				m := x.evalInt(env, spec.Decreases.E)
				old := st.ghost[decKey]
				if old != nil {
					x.oblige(st, "decreases", tag, And(Le(IntC(0), old), Lt(m, old)), spec.Decreases.Src, "")
				}
			}
		}
		return false
	}
	if spec != nil {
		for _, c := range spec.Invariants {
			g, ok := x.specBool(env, c.E, "inv:"+tag+":"+labelOr(c, "inv"))
			if !ok {
				continue
			}
			x.oblige(st, "inv-entry", tag+":"+labelOr(c, "inv"), g, c.Src, fmt.Sprintf("%s:%d", c.File, c.Line))
		}
	}
	eff := x.loopEffects(st, fr, b)
	if os.Getenv("GOVC_DEBUG_DRY") != "" {
		var gk, ek []string
		for k := range st.ghost {
			if strings.HasPrefix(k, "ghost!") {
				gk = append(gk, k+"="+st.ghost[k].String())
			}
		}
		for k := range eff.ghost {
			ek = append(ek, k)
		}
		sort.Strings(gk)
		sort.Strings(ek)
		fmt.Fprintf(os.Stderr, "[loophead] %s loop %d ghosts=%v effghost=%v\n", relName(fr.fn), ord, gk, ek)
	}
	x.havoc(st, fr, eff)
	x.havocShared(st, fr)
	env = x.envFor(st, fr)
	env.loopHead = true
	if spec != nil {
		for _, c := range spec.Invariants {
			if g, ok := x.specBool(env, c.E, "inv:"+tag+":"+labelOr(c, "inv")); ok {
				st.assume(g)
			}
		}
		if spec.Decreases != nil {
			st.ghost[decKey] = x.evalInt(env, spec.Decreases.E)
		}
	}
	st.trace = append(st.trace, fmt.Sprintf("loop%d", ord))
	return true
}

// havocShared: locations declared shared with other goroutines are unknown
// again, constrained only by their rely condition.
func (x *Exec) havocShared(st *State, fr *Frame) {
	if fr.fc == nil || len(fr.fc.Shared) == 0 {
		return
	}
	before := st.clone()
	for _, sh := range fr.fc.Shared {
		env := x.envFor(st, fr)
		a := x.evalAddr(env, sh.Loc)
		if a == nil {
			x.abort(st, "shared: cannot resolve "+sh.Src)
			return
		}
		nv := x.freshVal("shared", a.T, nil)
		x.storeAddr(st, a, nv)
		st.assume(x.typeInv(x.loadAddr(st, a), st))
	}
	for _, sh := range fr.fc.Shared {
		if sh.Rely != nil {
			env := x.envFor(st, fr)
			env.old = before
			env.relyOld = before
			st.assume(x.evalBool(env, sh.Rely))
		}
	}
	x.E.noteAssumption("rely: locations declared `shared` change between steps only as their rely condition allows (" + relName(fr.fn) + ")")
}

func labelOr(c Clause, d string) string {
	if c.Label != "" {
		return c.Label
	}
	return d
}

// loopEffects: what one traversal of the loop body may write (computed by an
// abstract single visit of every body block, with branching unconstrained).
func (x *Exec) loopEffects(st *State, fr *Frame, head *ssa.BasicBlock) *effects {
	eff1 := x.dryPass(st.clone(), fr, head)
	// second pass from a state in which everything the loop may write is
	// already unknown: a ref that is still built only from pre-loop symbols is
	// loop-invariant, and the havoc can be limited to that object
	start := x.E.nfresh
	s2 := st.clone()
	savedRefs := eff1.refs
	eff1.refs = nil
	x.havoc(s2, fr, eff1)
	eff1.refs = savedRefs
	eff2 := x.dryPass(s2, fr, head)
	eff := eff1
	for k := range eff2.heap {
		eff.heap[k] = true
	}
	for al := range eff2.locals {
		eff.locals[al] = true
	}
	for g := range eff2.ghost {
		eff.ghost[g] = true
	}
	eff.all = eff.all || eff2.all
	eff.refs = map[string][]*Term{}
	for k := range eff.heap {
		if eff2.whole[k] || eff1.whole[k] {
			eff.whole[k] = true
			continue
		}
		seen := map[string]bool{}
		for _, r := range eff2.refs[k] {
			kind := x.refKind(r, start)
			if kind == "variant" {
				eff.whole[k] = true
				break
			}
			if kind == "fresh" || seen[r.String()] {
				continue
			}
			seen[r.String()] = true
			eff.refs[k] = append(eff.refs[k], r)
		}
		if _, wrote := eff2.refs[k]; !wrote && !eff.whole[k] && len(eff1.refs[k]) > 0 {
			// written only in the first pass (should not happen): be conservative
			eff.whole[k] = true
		}
	}
	return eff
}

// refKind classifies a ref term: "invariant" (only pre-loop symbols),
// "fresh" (an object allocated inside the loop body) or "variant".
func (x *Exec) refKind(r *Term, start int) string {
	kind := "invariant"
	var walk func(t *Term)
	walk = func(t *Term) {
		if t.Op == "var" {
			if i := strings.LastIndex(t.Name, "!"); i >= 0 {
				var n int
				if _, err := fmt.Sscanf(t.Name[i+1:], "%d", &n); err == nil && n > start {
					if strings.HasPrefix(t.Name, "new!") && t == r {
						if kind == "invariant" {
							kind = "fresh"
						}
					} else {
						kind = "variant"
					}
				}
			}
		}
		for _, a := range t.Args {
			walk(a)
		}
	}
	walk(r)
	return kind
}

func (x *Exec) dryPass(ds *State, fr *Frame, head *ssa.BasicBlock) *effects {
	saveDry, saveEff := x.dry, x.dryEff
	eff := newEffects()
	x.dry, x.dryEff = true, eff
	ds.pc = nil
	dfr := *fr
	dfr.ret = func(*State, []Val) {}
	dfr.callOrd = nil
	visited := map[*ssa.BasicBlock]bool{}
	body := fr.loops.body[head]
	var visit func(b *ssa.BasicBlock, pred *ssa.BasicBlock, s *State)
	visit = func(b *ssa.BasicBlock, pred *ssa.BasicBlock, s *State) {
		if visited[b] || !body[b] {
			return
		}
		visited[b] = true
		x.dryBlock(s, &dfr, b, pred)
		for _, succ := range b.Succs {
			visit(succ, b, s.clone())
		}
	}
	visit(head, nil, ds)
	x.dry, x.dryEff = saveDry, saveEff
	return eff
}

// dryBlock executes the straight-line part of a block in dry mode.
func (x *Exec) dryBlock(st *State, fr *Frame, b *ssa.BasicBlock, pred *ssa.BasicBlock) {
	defer func() {
		if r := recover(); r != nil {
			// a register of another branch was missing in the abstract visit:
			// be conservative
			if os.Getenv("GOVC_DEBUG_DRY") != "" {
				fmt.Fprintf(os.Stderr, "[dry] block %d of %s: %v\n", b.Index, relName(fr.fn), r)
			}
			x.dryEff.all = true
			// the rest of the block was not visited: every local variable the function
			// ever stores to may have been written
			for _, bb := range fr.fn.Blocks {
				for _, in := range bb.Instrs {
					if s, ok := in.(*ssa.Store); ok {
						if al, ok := s.Addr.(*ssa.Alloc); ok {
							x.dryEff.locals[al] = true
						}
					}
				}
			}
		}
	}()
	for _, ins := range b.Instrs {
		switch in := ins.(type) {
		case *ssa.DebugRef, *ssa.If, *ssa.Jump, *ssa.Return, *ssa.Panic, *ssa.RunDefers:
		case *ssa.Call:
			x.call(st, fr, in, in.Common(), func(st2 *State, res Val) {
				if in.Type() != nil && !isEmptyTuple(in.Type()) {
					st.regs[in] = res
				}
				st.heap = st2.heap
				st.locals = st2.locals
				st.brk = st2.brk
			})
		case *ssa.Defer:
		case *ssa.Go:
		case *ssa.Store:
			addr := x.reg(st, fr, in.Addr)
			v := x.reg(st, fr, in.Val)
			a := x.ptrAddr(addr)
			x.storeAddr(st, a, x.coerce(v, a.T))
		case *ssa.MapUpdate:
			x.mapUpdate(st, fr, in)
		case *ssa.Send:
			x.chanSend(st, fr, in)
		case *ssa.Phi:
			// take any available edge
			done := false
			for _, e := range in.Edges {
				if v, ok := st.regs[e]; ok {
					st.regs[in] = v
					done = true
					break
				}
				if _, isC := e.(*ssa.Const); isC {
					st.regs[in] = x.reg(st, fr, e)
					done = true
					break
				}
			}
			if !done {
				st.regs[in] = x.freshVal("phi", in.Type(), nil)
			}
		case ssa.Value:
			x.value(st, fr, in, func(*State) {})
		}
	}
}

func (x *Exec) havoc(st *State, fr *Frame, eff *effects) {
	if os.Getenv("GOVC_DEBUG_DRY") != "" {
		var ks []string
		for k := range eff.heap {
			ks = append(ks, k)
		}
		sort.Strings(ks)
		fmt.Fprintf(os.Stderr, "[havoc] %s all=%v heap=%v\n", relName(fr.fn), eff.all, ks)
	}
	for _, al := range sortedAllocs(eff.locals) {
		cur, ok := st.locals[al]
		if !ok {
			continue
		}
		st.locals[al] = x.freshVal("h."+al.Comment, cur.T, st)
	}
	if eff.all {
		for _, k := range sortedKeysT(st.heap) {
			st.heap[k] = x.E.fresh("hv"+sanitize(k), st.heap[k].S)
		}
		for _, k := range sortedKeysT(st.ghost) {
			if _, declared := x.E.ghostDecls[strings.TrimPrefix(k, "ghost!")]; declared && strings.HasPrefix(k, "ghost!") {
				if !eff.ghost[k] {
					continue // specification variables change only by `set` and `modifies`
				}
				st.ghost[k] = x.E.fresh("gh"+sanitize(k), st.ghost[k].S)
				continue
			}
			if !strings.HasPrefix(k, "dec!") {
				delete(st.ghost, k)
			}
		}
	}
	for _, k := range sortedKeysB(eff.heap) {
		a, ok := st.heap[k]
		if !ok {
			continue
		}
		if !eff.whole[k] && a.S.K == SArr && eff.refs != nil {
			if rs, has := eff.refs[k]; has || len(rs) == 0 {
				for _, r := range rs {
					a = Store(a, r, x.E.fresh("hv"+sanitize(k), a.S.E))
				}
				st.heap[k] = a
				continue
			}
		}
		st.heap[k] = x.E.fresh("hv"+sanitize(k), a.S)
	}
	for _, k := range sortedKeysB(eff.ghost) {
		if a, ok := st.ghost[k]; ok {
			st.ghost[k] = x.E.fresh("gh"+sanitize(k), a.S)
		} else if strings.HasPrefix(k, "ghost!") {
			if gs, ok := x.E.ghostDecls[strings.TrimPrefix(k, "ghost!")]; ok {
				st.ghost[k] = x.E.fresh("gh"+sanitize(k), gs)
			}
		}
	}
	nb := x.E.fresh("brk", IntS)
	st.assume(Le(st.brk, nb))
	st.brk = nb
}

// ---------------------------------------------------------------- registers & constants

func (x *Exec) reg(st *State, fr *Frame, v ssa.Value) Val {
	switch c := v.(type) {
	case *ssa.Const:
		return x.constVal(c, st)
	case *ssa.Global:
		t := c.Type().(*types.Pointer).Elem()
		return Val{T: c.Type(), A: &Addr{K: AGlobal, Key: c.Pkg.Pkg.Path() + "." + c.Name(), T: t, contT: t}}
	case *ssa.Function:
		return Val{T: c.Type(), L: []*Term{x.E.funcRef(c)}, Fn: c}
	case *ssa.Builtin:
		return Val{T: c.Type(), Fn: c}
	case *ssa.FreeVar:
		for i, fv := range fr.fn.FreeVars {
			if fv == c {
				if i < len(fr.freeVars) {
					return fr.freeVars[i]
				}
			}
		}
	}
	if r, ok := st.regs[v]; ok {
		return r
	}
	panic(fmt.Sprintf("no value for %s (%T) in %s", v.Name(), v, fr.fn.Name()))
}

func (x *Exec) constVal(c *ssa.Const, st *State) Val {
	t := c.Type()
	if c.Value == nil {
		// zero value / nil
		return x.zeroVal(t)
	}
	switch c.Value.Kind() {
	case constant.Bool:
		return Val{T: t, L: []*Term{BoolC(constant.BoolVal(c.Value))}}
	case constant.Int:
		bi, _ := new(big.Int).SetString(c.Value.ExactString(), 10)
		if isFloat(t) {
			return Val{T: t, L: []*Term{App("f64.ofint", IntS, BigC(bi))}}
		}
		return Val{T: t, L: []*Term{x.intConst(bi, t)}}
	case constant.String:
		return x.E.stringConst(x, constant.StringVal(c.Value), t)
	case constant.Float:
		return Val{T: t, L: []*Term{App("f64.lit."+sanitize(c.Value.ExactString()), IntS)}}
	}
	panic("const kind " + c.Value.Kind().String())
}

func (x *Exec) intConst(v *big.Int, t types.Type) *Term {
	if x.tc.bv {
		if w, _, ok := intInfo(t); ok {
			return BVC(v, w)
		}
	}
	return BigC(v)
}

func (x *Exec) zeroVal(t types.Type) Val {
	ls := x.tc.leaves(t)
	v := Val{T: t, L: make([]*Term, len(ls))}
	for i, l := range ls {
		v.L[i] = zeroOfSort(l.S)
	}
	return v
}

func zeroOfSort(s *Sort) *Term {
	switch s.K {
	case SInt:
		return IntC(0)
	case SBool:
		return FalseT
	case SBV:
		return BVC(big.NewInt(0), s.W)
	case SArr:
		return &Term{Op: "constarr", S: s, Args: []*Term{zeroOfSort(s.E)}}
	}
	panic("zeroOfSort")
}

// coerce adapts a value to a destination type with the same leaf structure.
func (x *Exec) coerce(v Val, t types.Type) Val {
	if v.A != nil {
		return v
	}
	return Val{T: t, L: v.L, Fn: v.Fn, Bindings: v.Bindings}
}

// entry point for one function under contract
func (x *Exec) newState() *State {
	st := &State{regs: map[ssa.Value]Val{}, locals: map[*ssa.Alloc]Val{}, heap: map[string]*Term{}, ghost: map[string]*Term{}, defers: map[int][]deferred{}}
	st.brk = Var("brk@0", IntS)
	st.assume(Le(IntC(1), st.brk))
	return st
}

// sortedKeysB / sortedKeysT / sortedAllocs: deterministic iteration orders (fresh names are numbered in creation order,
// and solver run times depend on names and assertion order, so generation must not depend on Go's map order)
func sortedKeysB(m map[string]bool) []string {
	ks := make([]string, 0, len(m))
	for k := range m {
		ks = append(ks, k)
	}
	sort.Strings(ks)
	return ks
}

func sortedKeysT(m map[string]*Term) []string {
	ks := make([]string, 0, len(m))
	for k := range m {
		ks = append(ks, k)
	}
	sort.Strings(ks)
	return ks
}

func sortedAllocs(m map[*ssa.Alloc]bool) []*ssa.Alloc {
	as := make([]*ssa.Alloc, 0, len(m))
	for a := range m {
		as = append(as, a)
	}
	sort.Slice(as, func(i, j int) bool {
		if as[i].Pos() != as[j].Pos() {
			return as[i].Pos() < as[j].Pos()
		}
		return as[i].Name() < as[j].Name()
	})
	return as
}

// returnOrdinal: 1-based rank of a return instruction among the returns of its function, in source order
// (block order for returns without a position).
func returnOrdinal(fn *ssa.Function, r *ssa.Return) int {
	type rp struct {
		r   *ssa.Return
		pos token.Pos
		blk int
	}
	var rs []rp
	for _, b := range fn.Blocks {
		for _, in := range b.Instrs {
			if ri, ok := in.(*ssa.Return); ok {
				rs = append(rs, rp{ri, ri.Pos(), b.Index})
			}
		}
	}
	sort.SliceStable(rs, func(i, j int) bool {
		if rs[i].pos != rs[j].pos {
			return rs[i].pos < rs[j].pos
		}
		return rs[i].blk < rs[j].blk
	})
	for i, e := range rs {
		if e.r == r {
			return i + 1
		}
	}
	return 0
}
