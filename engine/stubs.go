package main

import (
	"go/ast"
	"go/constant"
	"go/types"
	"math/big"
	"strings"

	"golang.org/x/tools/go/ssa"
)

type ReplayResult struct {
	Confirmed bool     `json:"confirmed"`
	Outcome   string   `json:"outcome"`
	Inputs    []string `json:"inputs,omitempty"`
	Cmd       string   `json:"replay_cmd,omitempty"`
	Test      string   `json:"test,omitempty"`
	Output    string   `json:"output,omitempty"`
}

func (E *Engine) extraChecks(cfg *PropConfig) {
	for _, e := range cfg.Extra {
		if e == "labels" {
			E.VerifyLabels()
		}
	}
}

// globalFacts: the elements of package-level arrays with a constant
// initialiser that are never written outside init (lookup tables), read from
// the source on every run, for the globals the function refers to.
func (E *Engine) globalFacts(x *Exec, fn *ssa.Function, fc *FuncContract) []*Term {
	var out []*Term
	seen := map[*ssa.Global]bool{}
	var scan func(f *ssa.Function, depth int)
	scan = func(f *ssa.Function, depth int) {
		for _, b := range f.Blocks {
			for _, in := range b.Instrs {
				for _, op := range in.Operands(nil) {
					if g, ok := (*op).(*ssa.Global); ok && !seen[g] {
						seen[g] = true
						out = append(out, E.arrayGlobalFacts(x, g)...)
					}
				}
			}
		}
	}
	scan(fn, 0)
	return out
}

func (E *Engine) arrayGlobalFacts(x *Exec, g *ssa.Global) []*Term {
	at, ok := g.Type().(*types.Pointer).Elem().Underlying().(*types.Array)
	if !ok {
		return nil
	}
	if _, _, isInt := intInfo(at.Elem()); !isInt {
		return nil
	}
	key := g.Pkg.Pkg.Path() + "." + g.Name()
	if !E.neverWritten(g) {
		return nil
	}
	vals, ok := E.constArray(g)
	if !ok {
		return nil
	}
	st := x.newState()
	a := &Addr{K: AGlobal, Key: key, T: at, contT: at}
	arr := x.loadAddr(st, a)
	var out []*Term
	el := at.Elem()
	memKey := hkey("M", typeKey(el), 0)
	mem := x.heapArr(st, memKey, x.memSort(x.tc.leaves(el)[0]))
	out = append(out, Lt(arr.L[0], IntC(0))) // static storage: not a heap reference
	for i, v := range vals {
		out = append(out, Eq(Select(Select(mem, arr.L[0]), x.idxConst(int64(i))), x.intConst(v, el)))
	}
	E.noteAssumption("package-level lookup tables never written outside init are read as their source initialiser (" + key + ")")
	return out
}

// VerifyLemmas proves every lemma that was used (all of them in thorough tier)
// as its own obligation; a lemma is only available as a hypothesis because it
// is also an obligation of the same run.
func (E *Engine) VerifyLemmas() {
	for _, cf := range E.files {
		for _, lm := range cf.Lemmas {
			if !E.usedLemmas[lm.Name] && E.tier != "thorough" {
				continue
			}
			E.verifyLemma(lm)
		}
	}
}

func (E *Engine) verifyLemma(lm *Lemma) {
	x := &Exec{E: E, tc: &TypeCtx{bv: lm.BV}}
	st := x.newState()
	vars := map[string]Val{}
	for _, p := range lm.Params {
		s, gt := x.sortOfBinder(p.Type)
		v := Var("lem."+lm.Name+"."+p.Name, s)
		vars[p.Name] = Val{T: gt, L: []*Term{v}}
		if gt != nil && s.K == SInt {
			st.assume(rangeFact(v, gt))
		}
	}
	name := "lemma." + lm.Name + "#lemma:" + lm.Name
	o, ok := E.obligs[name]
	if !ok {
		o = &Oblig{Name: name, Fn: "lemma " + lm.Name, Kind: "lemma", Label: lm.Name, Where: lm.File, BV: lm.BV}
		E.obligs[name] = o
		E.order = append(E.order, name)
	}
	defer func() {
		if r := recover(); r != nil {
			if ee, ok := r.(evalError); ok {
				o.Queries = append(o.Queries, &Query{Goal: FalseT, Result: "error", Solver: "none", Output: "contract evaluation: " + ee.msg})
				return
			}
			panic(r)
		}
	}()
	env := &Env{x: x, st: st, old: st, vars: vars}
	for _, r := range lm.Requires {
		st.assume(x.evalBool(env, r.E))
	}
	for _, u := range lm.Uses {
		st.assume(x.evalBool(env, u.E))
	}
	var ens []*Term
	for _, e := range lm.Ensures {
		ens = append(ens, x.evalBool(env, e.E))
		o.Src += e.Src + " ; "
	}
	o.Queries = append(o.Queries, &Query{Hyps: append([]*Term(nil), st.pc...), Goal: And(ens...), Path: "lemma"})
}

func isErrorType(t types.Type) bool {
	n, ok := t.(*types.Named)
	return ok && n.Obj().Pkg() == nil && n.Obj().Name() == "error"
}

// isSentinel: a package-level variable of type error that is assigned only by
// its package initialiser is treated as a distinct non-nil constant.
func (E *Engine) isSentinel(key string) bool {
	if v, ok := E.sentinel[key]; ok {
		return v
	}
	i := strings.LastIndex(key, ".")
	pkg := E.L.Pkgs[key[:i]]
	res := false
	if pkg != nil {
		if g, ok := pkg.Members[key[i+1:]].(*ssa.Global); ok {
			res = true
			for _, f := range allFunctions(E.L.Prog, pkg) {
				if f.Name() == "init" {
					continue
				}
				for _, b := range f.Blocks {
					for _, in := range b.Instrs {
						if st, ok := in.(*ssa.Store); ok && st.Addr == g {
							res = false
						}
					}
				}
			}
		}
	}
	if E.sentinel == nil {
		E.sentinel = map[string]bool{}
	}
	E.sentinel[key] = res
	if res {
		E.noteAssumption("package-level error variables assigned only by their initialiser (io.EOF, io.ErrClosedPipe, ...) are distinct non-nil constants")
	}
	return res
}

func (E *Engine) sentinelID(key string) int {
	if E.sentinelIDs == nil {
		E.sentinelIDs = map[string]int{}
	}
	id, ok := E.sentinelIDs[key]
	if !ok {
		id = len(E.sentinelIDs) + 1
		E.sentinelIDs[key] = id
	}
	return id
}

type okT bool

func (o okT) ok() bool { return bool(o) }

func (E *Engine) neverWritten(g *ssa.Global) bool {
	for _, f := range allFunctions(E.L.Prog, g.Pkg) {
		if f.Name() == "init" {
			continue
		}
		for _, b := range f.Blocks {
			for _, in := range b.Instrs {
				switch v := in.(type) {
				case *ssa.Store:
					if v.Addr == g {
						return false
					}
					if ia, ok := v.Addr.(*ssa.IndexAddr); ok && ia.X == g {
						return false
					}
				}
			}
		}
	}
	return true
}

// constArray evaluates the composite-literal initialiser of an array global.
func (E *Engine) constArray(g *ssa.Global) ([]*big.Int, bool) {
	pp := E.L.PPkgs[g.Pkg.Pkg.Path()]
	if pp == nil {
		return nil, false
	}
	for _, file := range pp.Syntax {
		for _, d := range file.Decls {
			gd, ok := d.(*ast.GenDecl)
			if !ok {
				continue
			}
			for _, sp := range gd.Specs {
				vs, ok := sp.(*ast.ValueSpec)
				if !ok {
					continue
				}
				for ni, n := range vs.Names {
					if n.Name != g.Name() || ni >= len(vs.Values) {
						continue
					}
					cl, ok := vs.Values[ni].(*ast.CompositeLit)
					if !ok {
						return nil, false
					}
					at, ok := pp.TypesInfo.TypeOf(cl).Underlying().(*types.Array)
					if !ok {
						return nil, false
					}
					out := make([]*big.Int, at.Len())
					for i := range out {
						out[i] = big.NewInt(0)
					}
					idx := 0
					for _, el := range cl.Elts {
						val := el
						if kv, ok := el.(*ast.KeyValueExpr); ok {
							ktv := pp.TypesInfo.Types[kv.Key]
							if ktv.Value == nil {
								return nil, false
							}
							k, _ := constant.Int64Val(ktv.Value)
							idx = int(k)
							val = kv.Value
						}
						tv := pp.TypesInfo.Types[val]
						if tv.Value == nil || tv.Value.Kind() != constant.Int || idx >= len(out) {
							return nil, false
						}
						v, _ := new(big.Int).SetString(tv.Value.ExactString(), 10)
						out[idx] = v
						idx++
					}
					return out, true
				}
			}
		}
	}
	return nil, false
}
