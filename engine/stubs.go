package main

import (
	"go/types"
	"strings"

	"golang.org/x/tools/go/ssa"
)

type ReplayResult struct {
	Confirmed bool     `json:"confirmed"`
	Outcome   string   `json:"outcome"`
	Inputs    []string `json:"inputs,omitempty"`
	Cmd       string   `json:"replay_cmd,omitempty"`
	Test      string   `json:"test,omitempty"`
	Output    string   `json:"output,omitempty"`
}

func (E *Engine) extraChecks(cfg *PropConfig) {}

func (E *Engine) globalFacts(x *Exec, fn *ssa.Function, fc *FuncContract) []*Term { return nil }


// VerifyLemmas proves every lemma that was used (all of them in thorough tier)
// as its own obligation; a lemma is only available as a hypothesis because it
// is also an obligation of the same run.
func (E *Engine) VerifyLemmas() {
	for _, cf := range E.files {
		for _, lm := range cf.Lemmas {
			if !E.usedLemmas[lm.Name] && E.tier != "thorough" {
				continue
			}
			E.verifyLemma(lm)
		}
	}
}

func (E *Engine) verifyLemma(lm *Lemma) {
	x := &Exec{E: E, tc: &TypeCtx{bv: lm.BV}}
	st := x.newState()
	vars := map[string]Val{}
	for _, p := range lm.Params {
		s, gt := x.sortOfBinder(p.Type)
		v := Var("lem."+lm.Name+"."+p.Name, s)
		vars[p.Name] = Val{T: gt, L: []*Term{v}}
		if gt != nil && s.K == SInt {
			st.assume(rangeFact(v, gt))
		}
	}
	name := "lemma." + lm.Name + "#lemma:" + lm.Name
	o, ok := E.obligs[name]
	if !ok {
		o = &Oblig{Name: name, Fn: "lemma " + lm.Name, Kind: "lemma", Label: lm.Name, Where: lm.File, BV: lm.BV}
		E.obligs[name] = o
		E.order = append(E.order, name)
	}
	defer func() {
		if r := recover(); r != nil {
			if ee, ok := r.(evalError); ok {
				o.Queries = append(o.Queries, &Query{Goal: FalseT, Result: "error", Solver: "none", Output: "contract evaluation: " + ee.msg})
				return
			}
			panic(r)
		}
	}()
	env := &Env{x: x, st: st, old: st, vars: vars}
	for _, r := range lm.Requires {
		st.assume(x.evalBool(env, r.E))
	}
	for _, u := range lm.Uses {
		st.assume(x.evalBool(env, u.E))
	}
	var ens []*Term
	for _, e := range lm.Ensures {
		ens = append(ens, x.evalBool(env, e.E))
		o.Src += e.Src + " ; "
	}
	o.Queries = append(o.Queries, &Query{Hyps: append([]*Term(nil), st.pc...), Goal: And(ens...), Path: "lemma"})
}

func isErrorType(t types.Type) bool {
	n, ok := t.(*types.Named)
	return ok && n.Obj().Pkg() == nil && n.Obj().Name() == "error"
}

// isSentinel: a package-level variable of type error that is assigned only by
// its package initialiser is treated as a distinct non-nil constant.
func (E *Engine) isSentinel(key string) bool {
	if v, ok := E.sentinel[key]; ok {
		return v
	}
	i := strings.LastIndex(key, ".")
	pkg := E.L.Pkgs[key[:i]]
	res := false
	if pkg != nil {
		if g, ok := pkg.Members[key[i+1:]].(*ssa.Global); ok {
			res = true
			for _, f := range allFunctions(E.L.Prog, pkg) {
				if f.Name() == "init" {
					continue
				}
				for _, b := range f.Blocks {
					for _, in := range b.Instrs {
						if st, ok := in.(*ssa.Store); ok && st.Addr == g {
							res = false
						}
					}
				}
			}
		}
	}
	if E.sentinel == nil {
		E.sentinel = map[string]bool{}
	}
	E.sentinel[key] = res
	if res {
		E.noteAssumption("package-level error variables assigned only by their initialiser (io.EOF, io.ErrClosedPipe, ...) are distinct non-nil constants")
	}
	return res
}

func (E *Engine) sentinelID(key string) int {
	if E.sentinelIDs == nil {
		E.sentinelIDs = map[string]int{}
	}
	id, ok := E.sentinelIDs[key]
	if !ok {
		id = len(E.sentinelIDs) + 1
		E.sentinelIDs[key] = id
	}
	return id
}
