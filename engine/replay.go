package main

// Counterexample replay: a solver model of a failed obligation is turned into
// concrete inputs, the REAL function is run on them (in-package test injected
// with `go test -overlay`, nothing is written into /repo), and the violated
// clause is evaluated on the observed inputs/outputs.

import (
	"encoding/json"
	"fmt"
	"go/types"
	"math/big"
	"os"
	"os/exec"
	"path/filepath"
	"sort"
	"strconv"
	"strings"
	"time"

	"golang.org/x/tools/go/ssa"
)

const (
	replayMaxLen   = 6
	replayMaxInner = 8
)

type namedTerm struct {
	Name string
	T    *Term
}

// reifyTerms lists the terms whose model values describe an input value.
func (x *Exec) reifyTerms(st *State, name string, v Val, out *[]namedTerm, depth int) bool {
	if v.A != nil || v.T == nil {
		return false
	}
	switch u := v.T.Underlying().(type) {
	case *types.Basic:
		if isString(v.T) {
			*out = append(*out, namedTerm{name + ".len", v.L[2]})
			for i := 0; i < replayMaxInner*2; i++ {
				*out = append(*out, namedTerm{fmt.Sprintf("%s[%d]", name, i), x.strByte(st, v, x.idxConst(int64(i)))})
			}
			return true
		}
		if isFloat(v.T) {
			return false
		}
		*out = append(*out, namedTerm{name, v.L[0]})
		return true
	case *types.Slice:
		*out = append(*out, namedTerm{name + ".len", v.L[2]}, namedTerm{name + ".nil", Eq(v.L[0], IntC(0))})
		n := replayMaxLen
		if _, isB := u.Elem().Underlying().(*types.Basic); isB && !isString(u.Elem()) {
			n = replayMaxInner * 2
		}
		if depth > 1 {
			return false
		}
		for i := 0; i < n; i++ {
			ev := x.indexVal(st, v, x.idxConst(int64(i)))
			if !x.reifyTerms(st, fmt.Sprintf("%s[%d]", name, i), ev, out, depth+1) {
				return false
			}
		}
		return true
	case *types.Struct:
		off := 0
		for i := 0; i < u.NumFields(); i++ {
			f := u.Field(i)
			n := x.tc.nleaves(f.Type())
			fv := Val{T: f.Type(), L: v.L[off : off+n]}
			off += n
			switch f.Type().Underlying().(type) {
			case *types.Signature, *types.Pointer, *types.Interface, *types.Map, *types.Chan:
				*out = append(*out, namedTerm{name + "." + f.Name() + ".ref", fv.L[0]})
				continue
			}
			if !x.reifyTerms(st, name+"."+f.Name(), fv, out, depth) {
				return false
			}
		}
		return true
	}
	return false
}

func parseSMTInt(s string) (*big.Int, bool) {
	s = strings.TrimSpace(s)
	neg := false
	if strings.HasPrefix(s, "(-") {
		neg = true
		s = strings.TrimSpace(strings.TrimSuffix(strings.TrimPrefix(s, "(-"), ")"))
	}
	if strings.HasPrefix(s, "#x") {
		v, ok := new(big.Int).SetString(s[2:], 16)
		return v, ok
	}
	if strings.HasPrefix(s, "#b") {
		v, ok := new(big.Int).SetString(s[2:], 2)
		return v, ok
	}
	v, ok := new(big.Int).SetString(s, 10)
	if ok && neg {
		v.Neg(v)
	}
	return v, ok
}

type replayVals map[string]string // name -> model value text

func (rv replayVals) int(name string) (*big.Int, bool) {
	s, ok := rv[name]
	if !ok {
		return nil, false
	}
	return parseSMTInt(s)
}

// goExpr builds a Go expression for an input value from model values.
func (x *Exec) goExpr(name string, t types.Type, rv replayVals, qual types.Qualifier, depth int) (string, bool) {
	ts := types.TypeString(t, qual)
	switch u := t.Underlying().(type) {
	case *types.Basic:
		if isString(t) {
			n, ok := rv.int(name + ".len")
			if !ok || n.Sign() < 0 || n.Int64() > replayMaxInner*2 {
				return "", false
			}
			var bs []string
			for i := int64(0); i < n.Int64(); i++ {
				b, ok := rv.int(fmt.Sprintf("%s[%d]", name, i))
				if !ok {
					return "", false
				}
				bs = append(bs, strconv.Itoa(int(new(big.Int).And(b, big.NewInt(255)).Int64())))
			}
			return ts + "([]byte{" + strings.Join(bs, ", ") + "})", true
		}
		if u.Info()&types.IsBoolean != 0 {
			return ts + "(" + rv[name] + ")", rv[name] == "true" || rv[name] == "false"
		}
		n, ok := rv.int(name)
		if !ok {
			return "", false
		}
		// bit-vector models are unsigned: bring signed types into range
		if w, signed, isInt := intInfo(t); isInt && signed && n.Cmp(Pow2(w-1)) >= 0 {
			n = new(big.Int).Sub(n, Pow2(w))
		}
		if lo, hi, isInt := intRange(t); isInt && (n.Cmp(lo) < 0 || n.Cmp(hi) > 0) {
			return "", false
		}
		return ts + "(" + n.String() + ")", true
	case *types.Slice:
		if rv[name+".nil"] == "true" {
			return ts + "(nil)", true
		}
		n, ok := rv.int(name + ".len")
		if !ok || n.Sign() < 0 {
			return "", false
		}
		lim := int64(replayMaxLen)
		if _, isB := u.Elem().Underlying().(*types.Basic); isB && !isString(u.Elem()) {
			lim = replayMaxInner * 2
		}
		if n.Int64() > lim || depth > 1 {
			return "", false
		}
		var es []string
		for i := int64(0); i < n.Int64(); i++ {
			e, ok := x.goExpr(fmt.Sprintf("%s[%d]", name, i), u.Elem(), rv, qual, depth+1)
			if !ok {
				return "", false
			}
			es = append(es, e)
		}
		return ts + "{" + strings.Join(es, ", ") + "}", true
	case *types.Struct:
		var fs []string
		for i := 0; i < u.NumFields(); i++ {
			f := u.Field(i)
			switch f.Type().Underlying().(type) {
			case *types.Signature, *types.Pointer, *types.Interface, *types.Map, *types.Chan:
				if r, ok := rv.int(name + "." + f.Name() + ".ref"); !ok || r.Sign() != 0 {
					return "", false
				}
				continue
			}
			e, ok := x.goExpr(name+"."+f.Name(), f.Type(), rv, qual, depth)
			if !ok {
				return "", false
			}
			fs = append(fs, f.Name()+": "+e)
		}
		return ts + "{" + strings.Join(fs, ", ") + "}", true
	}
	return "", false
}

const replayHelpers = `
func govcDump(v reflect.Value) string {
	switch v.Kind() {
	case reflect.Bool:
		if v.Bool() { return "true" }
		return "false"
	case reflect.Int, reflect.Int8, reflect.Int16, reflect.Int32, reflect.Int64:
		return strconv.FormatInt(v.Int(), 10)
	case reflect.Uint, reflect.Uint8, reflect.Uint16, reflect.Uint32, reflect.Uint64, reflect.Uintptr:
		return strconv.FormatUint(v.Uint(), 10)
	case reflect.String:
		s := v.String()
		out := "{\"str\":["
		for i := 0; i < len(s); i++ {
			if i > 0 { out += "," }
			out += strconv.Itoa(int(s[i]))
		}
		return out + "]}"
	case reflect.Slice:
		if v.IsNil() { return "null" }
		out := "["
		for i := 0; i < v.Len(); i++ {
			if i > 0 { out += "," }
			out += govcDump(v.Index(i))
		}
		return out + "]"
	case reflect.Struct:
		out := "{"
		for i := 0; i < v.NumField(); i++ {
			if i > 0 { out += "," }
			out += "\"" + v.Type().Field(i).Name + "\":" + govcDump(v.Field(i))
		}
		return out + "}"
	case reflect.Interface, reflect.Ptr, reflect.Func, reflect.Map, reflect.Chan:
		if v.IsNil() { return "{\"nil\":true}" }
		if v.Kind() == reflect.Interface {
			if e, ok := v.Interface().(error); ok { return "{\"nil\":false,\"error\":" + strconv.Quote(e.Error()) + "}" }
		}
		return "{\"nil\":false}"
	}
	return "\"?\""
}
`

// tryReplay runs the real function on the model's inputs.
func (E *Engine) tryReplay(o *Oblig, q *Query, model map[string]string, dir string) *ReplayResult {
	x := o.X
	if x == nil || x.fn == nil || x.topFrame == nil || q.Names == nil {
		return nil
	}
	fn := x.fn
	if fn.Parent() != nil || fn.Signature.Recv() != nil {
		return &ReplayResult{Outcome: "REPLAY-NOT-ATTEMPTED: only package-level functions with value inputs are replayed; the solver model is recorded"}
	}
	rv := replayVals{}
	for i, n := range q.Names {
		if i < len(q.Model) {
			if v, ok := model[q.Model[i].String()]; ok {
				rv[n] = v
			}
		}
	}
	pkg := fn.Pkg.Pkg
	qual := func(p *types.Package) string {
		if p == pkg {
			return ""
		}
		return p.Name()
	}
	var args []string
	for _, p := range fn.Params {
		e, ok := x.goExpr(p.Name(), p.Type(), rv, qual, 0)
		if !ok {
			return &ReplayResult{Outcome: "REPLAY-NOT-ATTEMPTED: the model's value for parameter " + p.Name() + " cannot be built (too large, or of an unsupported type)"}
		}
		args = append(args, e)
	}
	res := fn.Signature.Results()
	var lhs []string
	for i := 0; i < res.Len(); i++ {
		lhs = append(lhs, fmt.Sprintf("r%d", i))
	}
	var sb strings.Builder
	fmt.Fprintf(&sb, "package %s\n\nimport (\n\t\"fmt\"\n\t\"reflect\"\n\t\"strconv\"\n\t\"testing\"\n)\n%s\n", pkg.Name(), replayHelpers)
	fmt.Fprintf(&sb, "func TestGovcReplay(t *testing.T) {\n\t_ = strconv.Itoa\n")
	for i, a := range args {
		fmt.Fprintf(&sb, "\tin%d := %s\n", i, a)
	}
	fmt.Fprintf(&sb, "\tdefer func() {\n\t\tif r := recover(); r != nil {\n\t\t\tfmt.Printf(\"GOVC-PANIC %%v\\n\", r)\n\t\t}\n\t}()\n")
	var ins []string
	for i := range args {
		ins = append(ins, fmt.Sprintf("in%d", i))
	}
	call := fn.Name() + "(" + strings.Join(ins, ", ") + ")"
	if len(lhs) > 0 {
		fmt.Fprintf(&sb, "\t%s := %s\n", strings.Join(lhs, ", "), call)
	} else {
		fmt.Fprintf(&sb, "\t%s\n", call)
	}
	for i := range lhs {
		fmt.Fprintf(&sb, "\tfmt.Printf(\"GOVC-RESULT %d %%s\\n\", govcDump(reflect.ValueOf(&r%d).Elem()))\n", i, i)
	}
	for i := range args {
		fmt.Fprintf(&sb, "\tfmt.Printf(\"GOVC-AFTER %d %%s\\n\", govcDump(reflect.ValueOf(&in%d).Elem()))\n", i, i)
	}
	fmt.Fprintf(&sb, "}\n")
	os.MkdirAll(dir, 0o755)
	testSrc := sb.String()
	testPath := filepath.Join(dir, "zz_govc_replay_test.go")
	os.WriteFile(testPath, []byte(testSrc), 0o644)
	// overlay: normalisation overlay files + the injected test
	pkgDir := filepath.Dir(E.L.Fset.Position(fn.Pos()).Filename)
	ov := map[string]map[string]string{"Replace": {}}
	for f, content := range E.L.Overlay {
		tmp := filepath.Join(dir, "ov_"+sanitize(strings.TrimPrefix(f, repoSrc+"/")))
		os.WriteFile(tmp, content, 0o644)
		ov["Replace"][f] = tmp
	}
	ov["Replace"][filepath.Join(pkgDir, "zz_govc_replay_test.go")] = testPath
	ovb, _ := json.Marshal(ov)
	ovPath := filepath.Join(dir, "overlay.json")
	os.WriteFile(ovPath, ovb, 0o644)
	rel, _ := filepath.Rel(repoSrc, pkgDir)
	cmd := exec.Command("bash", "-c", fmt.Sprintf("ulimit -v 4000000; cd %s && go test -overlay %s -vet=off -count=1 -timeout 60s -run '^TestGovcReplay$' -v ./%s", repoSrc, ovPath, rel))
	cmd.Env = append(os.Environ(), "GOFLAGS=-mod=mod", "GOPROXY=off", "GOSUMDB=off", "GOTOOLCHAIN=local")
	t0 := time.Now()
	outb, _ := cmd.CombinedOutput()
	out := string(outb)
	rr := &ReplayResult{Test: testPath, Output: truncate(out, 3000)}
	rr.Cmd = fmt.Sprintf("cd %s && go test -overlay %s -vet=off -count=1 -timeout 60s -run '^TestGovcReplay$' -v ./%s   (%.1fs)", repoSrc, ovPath, rel, time.Since(t0).Seconds())
	panicked := ""
	results := map[int]string{}
	after := map[int]string{}
	for _, l := range strings.Split(out, "\n") {
		l = strings.TrimSpace(l)
		switch {
		case strings.HasPrefix(l, "GOVC-PANIC "):
			panicked = strings.TrimPrefix(l, "GOVC-PANIC ")
		case strings.HasPrefix(l, "GOVC-RESULT "):
			f := strings.SplitN(strings.TrimPrefix(l, "GOVC-RESULT "), " ", 2)
			if i, err := strconv.Atoi(f[0]); err == nil && len(f) == 2 {
				results[i] = f[1]
			}
		case strings.HasPrefix(l, "GOVC-AFTER "):
			f := strings.SplitN(strings.TrimPrefix(l, "GOVC-AFTER "), " ", 2)
			if i, err := strconv.Atoi(f[0]); err == nil && len(f) == 2 {
				after[i] = f[1]
			}
		}
	}
	rr.Inputs = args
	switch {
	case o.Kind == "safe":
		if panicked != "" {
			rr.Confirmed = true
			rr.Outcome = "REPLAY-CONFIRMED: the real function panics on the model's input: " + panicked
		} else if len(results) > 0 || res.Len() == 0 {
			rr.Outcome = "REPLAY-NOT-REPRODUCED: the real function does not panic on the model's input (the model may exploit an abstraction)"
		} else {
			rr.Outcome = "REPLAY-INCONCLUSIVE: the replay test did not run to completion"
		}
	case o.Kind == "post" && o.Expr != nil:
		if panicked != "" {
			rr.Confirmed = true
			rr.Outcome = "REPLAY-CONFIRMED: the real function panics on the model's input (no result satisfies the postcondition): " + panicked
			break
		}
		if len(results) != res.Len() {
			rr.Outcome = "REPLAY-INCONCLUSIVE: the replay test did not run to completion"
			break
		}
		verdict, detail := x.evalClauseConcrete(o, fn, args, rv, results, after)
		rr.Outcome = verdict + detail
		rr.Confirmed = strings.HasPrefix(verdict, "REPLAY-CONFIRMED")
	default:
		if panicked != "" {
			rr.Outcome = "REPLAY: the real function panics on the model's input: " + panicked
			rr.Confirmed = true
		} else {
			rr.Outcome = "REPLAY-RAN: the real function was run on the model's input; this kind of obligation (" + o.Kind + ") is an internal proof step and is not evaluated on the run"
		}
	}
	return rr
}

// concreteVal builds a value from a JSON dump, allocating concrete backing stores in st.
func (x *Exec) concreteVal(st *State, t types.Type, js interface{}, nextRef *int64) (Val, bool) {
	switch u := t.Underlying().(type) {
	case *types.Basic:
		if isString(t) {
			m, ok := js.(map[string]interface{})
			if !ok {
				return Val{}, false
			}
			arr, _ := m["str"].([]interface{})
			*nextRef++
			ref := IntC(*nextRef)
			key := hkey("S", "byte", 0)
			mem := x.strMem(st)
			inner := Select(mem, ref)
			for i, b := range arr {
				f, _ := b.(json.Number)
				n, _ := new(big.Int).SetString(f.String(), 10)
				inner = Store(inner, IntC(int64(i)), BigC(n))
			}
			st.heap[key] = Store(mem, ref, inner)
			return Val{T: t, L: []*Term{ref, IntC(0), IntC(int64(len(arr)))}}, true
		}
		if u.Info()&types.IsBoolean != 0 {
			b, ok := js.(bool)
			return Val{T: t, L: []*Term{BoolC(b)}}, ok
		}
		f, ok := js.(json.Number)
		if !ok {
			return Val{}, false
		}
		n, ok := new(big.Int).SetString(f.String(), 10)
		if !ok {
			return Val{}, false
		}
		return Val{T: t, L: []*Term{BigC(n)}}, true
	case *types.Slice:
		if js == nil {
			return Val{T: t, L: []*Term{IntC(0), IntC(0), IntC(0), IntC(0)}}, true
		}
		arr, ok := js.([]interface{})
		if !ok {
			return Val{}, false
		}
		*nextRef++
		ref := IntC(*nextRef)
		el := u.Elem()
		for i, e := range arr {
			ev, ok := x.concreteVal(st, el, e, nextRef)
			if !ok {
				return Val{}, false
			}
			a := &Addr{K: AElem, Key: typeKey(el), Ref: ref, Idx: IntC(int64(i)), T: el, contT: el}
			x.storeAddr(st, a, ev)
		}
		n := IntC(int64(len(arr)))
		return Val{T: t, L: []*Term{ref, IntC(0), n, n}}, true
	case *types.Struct:
		m, ok := js.(map[string]interface{})
		if !ok {
			return Val{}, false
		}
		out := Val{T: t}
		for i := 0; i < u.NumFields(); i++ {
			f := u.Field(i)
			switch f.Type().Underlying().(type) {
			case *types.Signature, *types.Pointer, *types.Map, *types.Chan:
				out.L = append(out.L, IntC(0))
				continue
			case *types.Interface:
				out.L = append(out.L, IntC(0), IntC(0))
				continue
			}
			fv, ok := x.concreteVal(st, f.Type(), m[f.Name()], nextRef)
			if !ok {
				return Val{}, false
			}
			out.L = append(out.L, fv.L...)
		}
		return out, true
	case *types.Interface:
		m, ok := js.(map[string]interface{})
		if !ok {
			return Val{}, false
		}
		if isNil, _ := m["nil"].(bool); isNil {
			return Val{T: t, L: []*Term{IntC(0), IntC(0)}}, true
		}
		*nextRef++
		return Val{T: t, L: []*Term{IntC(7), IntC(*nextRef)}}, true
	}
	return Val{}, false
}

func decodeJSON(s string) (interface{}, bool) {
	d := json.NewDecoder(strings.NewReader(s))
	d.UseNumber()
	var v interface{}
	if err := d.Decode(&v); err != nil {
		return nil, false
	}
	return v, true
}

// evalClauseConcrete evaluates the violated postcondition on the observed run.
func (x *Exec) evalClauseConcrete(o *Oblig, fn *ssa.Function, args []string, rv replayVals, results, after map[int]string) (verdict, detail string) {
	defer func() {
		if r := recover(); r != nil {
			verdict, detail = "REPLAY-INCONCLUSIVE: ", fmt.Sprintf("the clause could not be evaluated on the run (%v)", r)
		}
	}()
	E := x.E
	nextRef := int64(500000)
	pre := x.newState()
	vars := map[string]Val{}
	// inputs as observed after the call are not used for old(); rebuild the inputs from the model
	for i, p := range fn.Params {
		_ = i
		js, ok := x.inputJSON(p.Name(), p.Type(), rv)
		if !ok {
			return "REPLAY-INCONCLUSIVE: ", "input " + p.Name() + " could not be rebuilt"
		}
		v, ok := x.concreteVal(pre, p.Type(), js, &nextRef)
		if !ok {
			return "REPLAY-INCONCLUSIVE: ", "input " + p.Name() + " could not be rebuilt"
		}
		vars[p.Name()] = v
	}
	post := pre.clone()
	res := fn.Signature.Results()
	penv := &Env{x: x, st: post, old: pre, vars: vars, pkgPath: fnPkgPath(fn), fc: x.fc}
	var rvals []Val
	for i := 0; i < res.Len(); i++ {
		js, ok := decodeJSON(results[i])
		if !ok {
			return "REPLAY-INCONCLUSIVE: ", "result could not be parsed"
		}
		v, ok := x.concreteVal(post, res.At(i).Type(), js, &nextRef)
		if !ok {
			return "REPLAY-INCONCLUSIVE: ", "result of unsupported type"
		}
		rvals = append(rvals, v)
	}
	x.bindResults(penv, res, x.tupleOf(res, rvals))
	saved := x.dry
	x.dry = false
	clause := x.evalBool(penv, o.Expr)
	x.dry = saved
	// clause true on the run?  check both directions
	hyps, _ := E.prepare(nil, nil)
	_ = hyps
	g1, q1, goalT := E.prepare2(nil, clause, nil)
	r1, _, _, _ := race(Script(append(g1, q1...), goalT, false, nil), "", 10) // unsat <=> clause valid on the run
	if r1 == "unsat" {
		return "REPLAY-NOT-REPRODUCED: ", "the clause holds on the real run (the model may exploit an abstraction, e.g. an uninterpreted operation)"
	}
	g2, q2, goalF := E.prepare2(nil, Not(clause), nil)
	r2, _, _, _ := race(Script(append(g2, q2...), goalF, false, nil), "", 10) // unsat <=> clause false on the run
	if r2 == "unsat" {
		var rs []string
		ks := make([]int, 0, len(results))
		for k := range results {
			ks = append(ks, k)
		}
		sort.Ints(ks)
		for _, k := range ks {
			rs = append(rs, results[k])
		}
		return "REPLAY-CONFIRMED: ", "the clause is false on the real run; inputs " + strings.Join(args, ", ") + "; results " + strings.Join(rs, ", ")
	}
	return "REPLAY-INCONCLUSIVE: ", "the clause could not be decided on the concrete run (abstract functions involved)"
}

// inputJSON renders a model input in the same JSON shape govcDump produces.
func (x *Exec) inputJSON(name string, t types.Type, rv replayVals) (interface{}, bool) {
	switch u := t.Underlying().(type) {
	case *types.Basic:
		if isString(t) {
			n, ok := rv.int(name + ".len")
			if !ok {
				return nil, false
			}
			var arr []interface{}
			for i := int64(0); i < n.Int64(); i++ {
				b, ok := rv.int(fmt.Sprintf("%s[%d]", name, i))
				if !ok {
					return nil, false
				}
				arr = append(arr, json.Number(new(big.Int).And(b, big.NewInt(255)).String()))
			}
			return map[string]interface{}{"str": arr}, true
		}
		if u.Info()&types.IsBoolean != 0 {
			return rv[name] == "true", true
		}
		n, ok := rv.int(name)
		if !ok {
			return nil, false
		}
		if w, signed, isInt := intInfo(t); isInt && signed && n.Cmp(Pow2(w-1)) >= 0 {
			n = new(big.Int).Sub(n, Pow2(w))
		}
		return json.Number(n.String()), true
	case *types.Slice:
		if rv[name+".nil"] == "true" {
			return nil, true
		}
		n, ok := rv.int(name + ".len")
		if !ok {
			return nil, false
		}
		arr := []interface{}{}
		for i := int64(0); i < n.Int64(); i++ {
			e, ok := x.inputJSON(fmt.Sprintf("%s[%d]", name, i), u.Elem(), rv)
			if !ok {
				return nil, false
			}
			arr = append(arr, e)
		}
		return arr, true
	case *types.Struct:
		m := map[string]interface{}{}
		for i := 0; i < u.NumFields(); i++ {
			f := u.Field(i)
			switch f.Type().Underlying().(type) {
			case *types.Signature, *types.Pointer, *types.Interface, *types.Map, *types.Chan:
				continue
			}
			e, ok := x.inputJSON(name+"."+f.Name(), f.Type(), rv)
			if !ok {
				return nil, false
			}
			m[f.Name()] = e
		}
		return m, true
	}
	return nil, false
}
