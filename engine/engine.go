package main

// Engine: contract registry, obligation registry, quantifier instantiation,
// function verification driver.

import (
	"fmt"
	"go/types"
	"math/big"
	"sort"
	"strings"

	"encoding/json"
	"golang.org/x/tools/go/ssa"
	"os"
	"path/filepath"
)

type Engine struct {
	L         *Loaded
	files     []*ContractFile
	contracts map[string]*FuncContract // key: pkgpath::relname  or  full name
	pures     map[string]*PureFunc
	pureMeths map[string]*PureFunc // "Type.name"
	lemmas    map[string]*Lemma
	monitors  []*Monitor
	consts    map[string]*SExpr
	pkgOfFC   map[*FuncContract]string

	obligs map[string]*Oblig
	order  []string
	nfresh int

	loopCache map[*ssa.Function]*loopInfo
	snapshots map[string]*State
	strConsts map[string]int
	strByRef  map[string]string
	typeTags  map[string]int
	funcRefs  map[*ssa.Function]int

	unmodelled     map[string]bool
	assumptions    map[string]bool
	usedTrusted    map[string]bool
	usedLemmas     map[string]bool
	shared         map[string]bool
	cfgErrors      []string
	loopUsed       map[string]bool
	assertUsed     map[string]bool
	recApps        map[string]bool
	recAxioms      []*Term
	recTemplates   map[string]*recTemplate
	verified       []FuncReport
	curExec        *Exec
	feasCount      int
	tier           string
	timeoutS       int
	verbose        bool
	globalsInit    map[string][]*Term
	recDepth       int
	debugQ         bool
	siteOrds       map[*ssa.Function]map[ssa.Instruction]siteInfo
	lastCuts       []int
	ghostDecls     map[string]*Sort
	typeOfTag      map[int]types.Type
	debugN         int
	litCache       map[string][]literalRow
	pkgOfFile      map[*ContractFile]string
	sentinel       map[string]bool
	sentinelIDs    map[string]int
	keepScripts    bool
	orphans        []string
	undecided      map[string]string // function -> why its contract no longer attaches
	hints          map[string][]localHint
	fnByReportName map[string]*ssa.Function
	staleClauses   map[string]string // function#clause -> why the clause could not be evaluated (dropped for this run)
	extraEvidence  map[string]interface{}
}

type FuncReport struct {
	Name     string  `json:"name"`
	Where    string  `json:"where"`
	Paths    int     `json:"paths"`
	Obligs   int     `json:"obligations"`
	Contract string  `json:"contract"`
	Seconds  float64 `json:"gen_seconds"`
	SSAHash  string  `json:"ssa_hash"`
	Mode     string  `json:"mode"`
}

func NewEngine(l *Loaded) *Engine {
	return &Engine{
		L: l, contracts: map[string]*FuncContract{}, pures: map[string]*PureFunc{}, pureMeths: map[string]*PureFunc{},
		lemmas: map[string]*Lemma{}, consts: map[string]*SExpr{}, pkgOfFC: map[*FuncContract]string{},
		siteOrds: map[*ssa.Function]map[ssa.Instruction]siteInfo{},
		obligs:   map[string]*Oblig{}, loopCache: map[*ssa.Function]*loopInfo{}, snapshots: map[string]*State{},
		strConsts: map[string]int{}, strByRef: map[string]string{}, typeTags: map[string]int{}, funcRefs: map[*ssa.Function]int{},
		unmodelled: map[string]bool{}, assumptions: map[string]bool{}, usedTrusted: map[string]bool{}, usedLemmas: map[string]bool{},
		shared: map[string]bool{}, loopUsed: map[string]bool{}, assertUsed: map[string]bool{}, recApps: map[string]bool{},
		globalsInit: map[string][]*Term{},
	}
}

func (E *Engine) configError(s string)         { E.cfgErrors = append(E.cfgErrors, s) }
func (E *Engine) noteUnmodelled(s string)      { E.unmodelled[s] = true }
func (E *Engine) noteAssumption(s string)      { E.assumptions[s] = true }
func (E *Engine) noteShared(x *Exec, s string) { E.shared[s] = true }
func (E *Engine) noteLemmaUse(l *Lemma)        { E.usedLemmas[l.Name] = true }
func (E *Engine) noteContractUse(fc *FuncContract) {
	if fc.Trusted {
		E.usedTrusted[fc.Name] = true
	}
}
func (E *Engine) markLoopUsed(fc *FuncContract, ord int) {
	E.loopUsed[fmt.Sprintf("%s#%d", fc.Name, ord)] = true
}
func (E *Engine) markAssertUsed(fc *FuncContract, i int) {
	E.assertUsed[fmt.Sprintf("%s#%d", fc.Name, i)] = true
}

func (E *Engine) loopsOf(fn *ssa.Function) *loopInfo {
	if li, ok := E.loopCache[fn]; ok {
		return li
	}
	li := computeLoops(fn)
	E.loopCache[fn] = li
	return li
}

// AddContractFile registers a parsed file.  pkgPath is the package the file
// belongs to ("" for shared spec files whose func names are full names).
func (E *Engine) AddContractFile(cf *ContractFile, pkgPath string) {
	E.files = append(E.files, cf)
	if E.pkgOfFile == nil {
		E.pkgOfFile = map[*ContractFile]string{}
	}
	E.pkgOfFile[cf] = pkgPath
	for _, f := range cf.Funcs {
		key := f.Name
		if pkgPath != "" && !strings.Contains(f.Name, "/") && !isFullStdName(f.Name) {
			key = pkgPath + "::" + f.Name
		}
		if _, dup := E.contracts[key]; dup {
			E.configError(fmt.Sprintf("%s:%d: duplicate contract for %s", cf.Path, f.Line, f.Name))
		}
		E.contracts[key] = f
		E.pkgOfFC[f] = pkgPath
	}
	for _, p := range cf.Pures {
		if p.Recv != nil {
			E.pureMeths[strings.TrimPrefix(p.Recv.Type, "*")+"."+p.Name] = p
		} else {
			E.pures[p.Name] = p
		}
	}
	for _, l := range cf.Lemmas {
		E.lemmas[l.Name] = l
	}
	for _, m := range cf.Monitors {
		E.monitors = append(E.monitors, m)
	}
	for k, v := range cf.Consts {
		E.consts[k] = v
	}
	for k, v := range cf.GhostVars {
		if E.ghostDecls == nil {
			E.ghostDecls = map[string]*Sort{}
		}
		E.ghostDecls[k] = sortOfSpecType(v)
	}
}

// isFullStdName: names such as strings.HasPrefix or (*bufio.Reader).ReadByte
// written in a package contract file refer to external functions.
func isFullStdName(n string) bool {
	if strings.HasPrefix(n, "field ") {
		return false
	}
	s := strings.TrimPrefix(strings.TrimPrefix(n, "("), "*")
	i := strings.Index(s, ".")
	if i <= 0 {
		return false
	}
	// "pkg.Name" where the part before the dot is a lower-case identifier and
	// the name is not a method of a local type "(T).m"
	if strings.HasPrefix(n, "(") {
		// (*T).m local vs (*pkg.T).m external
		j := strings.Index(n, ")")
		return strings.Contains(n[:j], ".")
	}
	return true
}

func (E *Engine) pkgOfContract(fc *FuncContract) string { return E.pkgOfFC[fc] }

func (E *Engine) contractFor(fn *ssa.Function) *FuncContract {
	if fc, ok := E.contracts[fnPkgPath(fn)+"::"+relName(fn)]; ok {
		return fc
	}
	if fc, ok := E.contracts[fullName(fn)]; ok {
		return fc
	}
	// short form: last path element
	if fc, ok := E.contracts[shortName(fullName(fn))]; ok {
		return fc
	}
	// wildcard contracts (trusted families such as the logging functions):
	// the longest matching pattern wins
	var best *FuncContract
	bestLen := -1
	full := fullName(fn)
	for k, fc := range E.contracts {
		if !strings.Contains(k, "*") || !fc.Trusted {
			continue
		}
		if globMatch(k, full) && len(k) > bestLen {
			best, bestLen = fc, len(k)
		}
	}
	return best
}

// globMatch: '*' matches any run of characters.
func globMatch(pat, s string) bool {
	parts := strings.Split(pat, "*")
	if !strings.HasPrefix(s, parts[0]) {
		return false
	}
	s = s[len(parts[0]):]
	for i := 1; i < len(parts); i++ {
		p := parts[i]
		if i == len(parts)-1 {
			return strings.HasSuffix(s, p)
		}
		j := strings.Index(s, p)
		if j < 0 {
			return false
		}
		s = s[j+len(p):]
	}
	return true
}

func (E *Engine) contractForMethod(recvT types.Type, m *types.Func) *FuncContract {
	tn := ""
	pkg := ""
	if n, ok := recvT.(*types.Named); ok {
		tn = n.Obj().Name()
		if n.Obj().Pkg() != nil {
			pkg = n.Obj().Pkg().Path()
		}
	}
	for _, k := range []string{
		pkg + "::(" + tn + ")." + m.Name(),
		"(" + typeKey(recvT) + ")." + m.Name(),
		"(" + shortName(typeKey(recvT)) + ")." + m.Name(),
	} {
		if fc, ok := E.contracts[k]; ok {
			return fc
		}
	}
	// the interface that declares the method (embedded interfaces)
	if sig, ok := m.Type().(*types.Signature); ok && sig.Recv() != nil {
		if dn, ok := sig.Recv().Type().(*types.Named); ok && !types.Identical(dn, recvT) {
			return E.contractForMethod(dn, m)
		}
	}
	return nil
}

func (E *Engine) recvNameFor(fc *FuncContract) string {
	if n, ok := fc.Flags["recv"]; ok && n != "" {
		return n
	}
	return "this"
}

func (E *Engine) pureMethod(t types.Type, name string) *PureFunc {
	if t == nil {
		return nil
	}
	t = derefT(t)
	if n, ok := t.(*types.Named); ok {
		if pf, ok := E.pureMeths[n.Obj().Name()+"."+name]; ok {
			return pf
		}
		// an interface that embeds others has their abstract state functions
		if it, ok := n.Underlying().(*types.Interface); ok {
			for i := 0; i < it.NumEmbeddeds(); i++ {
				if pf := E.pureMethod(it.EmbeddedType(i), name); pf != nil {
					return pf
				}
			}
		}
	}
	return nil
}

func (E *Engine) importPath(fromPkg, name string) string {
	pp := E.L.PPkgs[fromPkg]
	if pp != nil {
		for path, ip := range pp.Imports {
			if ip.Name == name {
				return path
			}
		}
	}
	// fall back: any loaded package with that name
	for path, p := range E.L.Pkgs {
		if p.Pkg.Name() == name {
			return path
		}
	}
	return ""
}

// ---------------------------------------------------------------- constants with identity

func (E *Engine) stringConst(x *Exec, s string, t types.Type) Val {
	id, ok := E.strConsts[s]
	if !ok {
		id = len(E.strConsts) + 1
		E.strConsts[s] = id
	}
	ref := IntC(int64(-1000 - id))
	E.strByRef[ref.String()] = s
	return Val{T: t, L: []*Term{ref, x.idxConst(0), x.idxConst(int64(len(s)))}}
}

func (E *Engine) strID(s string) *Term {
	id, ok := E.strConsts[s]
	if !ok {
		id = len(E.strConsts) + 1
		E.strConsts[s] = id
	}
	return IntC(int64(-1000 - id))
}

func (E *Engine) constStrOf(v Val) (string, bool) {
	if len(v.L) < 3 || !v.L[0].IsConst() || !v.L[1].IsConst() || !v.L[2].IsConst() {
		return "", false
	}
	s, ok := E.strByRef[v.L[0].String()]
	if !ok {
		return "", false
	}
	off, ln := int(v.L[1].C.Int64()), int(v.L[2].C.Int64())
	if off < 0 || off+ln > len(s) {
		return "", false
	}
	return s[off : off+ln], true
}

// string constant contents as hypotheses (only for constants that occur)
func (E *Engine) strConstFacts(x *Exec, used map[string]bool) []*Term {
	var out []*Term
	mem := Var("$"+sanitize(hkey("S", "byte", 0))+"@0", x.memSort(leafInfo{S: x.tc.scalarSort(types.Typ[types.Uint8])}))
	for _, refStr := range sortedKeysB(used) {
		s := E.strByRef[refStr]
		id := E.strConsts[s]
		ref := IntC(int64(-1000 - id))
		for i := 0; i < len(s); i++ {
			out = append(out, Eq(Select(Select(mem, ref), x.idxConst(int64(i))), x.intConst(big.NewInt(int64(s[i])), types.Typ[types.Uint8])))
		}
	}
	return out
}

func (E *Engine) typeTag(t types.Type) *Term {
	k := typeKey(t)
	id, ok := E.typeTags[k]
	if !ok {
		id = len(E.typeTags) + 1
		E.typeTags[k] = id
		if E.typeOfTag == nil {
			E.typeOfTag = map[int]types.Type{}
		}
		E.typeOfTag[id] = t
	}
	return IntC(int64(id))
}

// dynamicType: the concrete type of an interface value whose tag is a known constant.
func (E *Engine) dynamicType(v Val) types.Type {
	if v.T == nil || len(v.L) != 2 || !v.L[0].IsConst() {
		return nil
	}
	if _, isI := v.T.Underlying().(*types.Interface); !isI {
		return nil
	}
	return E.typeOfTag[int(v.L[0].C.Int64())]
}

// typeByName resolves a type written in a contract: basic types, []T, *T,
// interface{}, and (qualified) named types of the loaded packages.
func (E *Engine) typeByName(pkgPath, name string) types.Type {
	name = strings.TrimSpace(name)
	switch {
	case name == "interface{}":
		return types.NewInterfaceType(nil, nil)
	case strings.HasPrefix(name, "[]"):
		if el := E.typeByName(pkgPath, name[2:]); el != nil {
			return types.NewSlice(el)
		}
		return nil
	case strings.HasPrefix(name, "*"):
		if el := E.typeByName(pkgPath, name[1:]); el != nil {
			return types.NewPointer(el)
		}
		return nil
	}
	if o := types.Universe.Lookup(name); o != nil {
		if tn, ok := o.(*types.TypeName); ok {
			return tn.Type()
		}
	}
	pp, n := pkgPath, name
	if i := strings.LastIndex(n, "."); i > 0 {
		pp = E.importPath(pkgPath, n[:i])
		n = n[i+1:]
	}
	if p := E.L.Pkgs[pp]; p != nil {
		if o := p.Pkg.Scope().Lookup(n); o != nil {
			return o.Type()
		}
	}
	return nil
}

func (E *Engine) typeTagByName(pkgPath, name string) *Term {
	name = strings.TrimSpace(name)
	if t := E.typeByName(pkgPath, name); t != nil {
		return E.typeTag(t)
	}
	ptr := strings.HasPrefix(name, "*")
	n := strings.TrimPrefix(name, "*")
	pp := pkgPath
	if i := strings.Index(n, "."); i > 0 {
		pp = E.importPath(pkgPath, n[:i])
		n = n[i+1:]
	}
	if p := E.L.Pkgs[pp]; p != nil {
		if o := p.Pkg.Scope().Lookup(n); o != nil {
			t := o.Type()
			if ptr {
				t = types.NewPointer(t)
			}
			return E.typeTag(t)
		}
	}
	E.configError("typeis: unknown type " + name)
	return IntC(-1)
}

// funcByRef: the function whose identity constant is t (see funcRef).
func (E *Engine) funcByRef(t *Term) *ssa.Function {
	if !t.IsConst() {
		return nil
	}
	for f, id := range E.funcRefs {
		if t.C.Cmp(big.NewInt(int64(-100000-id))) == 0 {
			return f
		}
	}
	return nil
}

func (E *Engine) funcRef(f *ssa.Function) *Term {
	id, ok := E.funcRefs[f]
	if !ok {
		id = len(E.funcRefs) + 1
		E.funcRefs[f] = id
	}
	return IntC(int64(-100000 - id))
}

// ---------------------------------------------------------------- recursive pure functions

type recTemplate struct {
	params []*Term
	app    *Term
	body   *Term
}

// noteRecApp makes sure the unfolding template of a recursive pure function
// exists: forall params. f(params) == body(params), kept as a pair of terms
// over template variables and instantiated for the applications that occur.
func (E *Engine) noteRecApp(x *Exec, pf *PureFunc, app *Term, args []Val) {
	if E.recTemplates == nil {
		E.recTemplates = map[string]*recTemplate{}
	}
	if _, ok := E.recTemplates[app.Name]; ok {
		return
	}
	E.recTemplates[app.Name] = nil // guard against recursion while building
	vars := map[string]Val{}
	var params []*Term
	mkv := func(name string, v Val) Val {
		nv := Val{T: v.T, L: make([]*Term, len(v.L))}
		for i, l := range v.L {
			p := Var(fmt.Sprintf("tpl.%s.%s.%d", app.Name, name, i), l.S)
			params = append(params, p)
			nv.L[i] = p
		}
		return nv
	}
	i := 0
	if pf.Recv != nil {
		vars[pf.Recv.Name] = mkv(pf.Recv.Name, args[0])
		i = 1
	}
	for j, p := range pf.Params {
		vars[p.Name] = mkv(p.Name, args[i+j])
	}
	st := x.newState()
	env := &Env{x: x, st: st, old: st, vars: vars, depth: 30}
	body := x.eval(env, pf.Body)
	tapp := App(app.Name, app.S, params...)
	E.recTemplates[app.Name] = &recTemplate{params: params, app: tapp, body: body.L[0]}
}

// recAxiomsFor: one-level unfolding axioms for the recursive applications that
// occur (closed terms only) in the given terms.
func (E *Engine) recAxiomsFor(ts []*Term, goal *Term) []*Term {
	if len(E.recTemplates) == 0 {
		return nil
	}
	present := map[string]*Term{}
	bound := map[string]int{}
	var walk func(t *Term)
	walk = func(t *Term) {
		if t.Op == "app" {
			if tpl := E.recTemplates[t.Name]; tpl != nil && len(tpl.params) == len(t.Args) && closed(t, bound) {
				present[t.String()] = t
			}
		}
		for _, b := range t.Bound {
			bound[b.Name]++
		}
		for _, a := range t.Args {
			walk(a)
		}
		for _, b := range t.Bound {
			bound[b.Name]--
		}
	}
	for _, t := range ts {
		walk(t)
	}
	if goal != nil {
		walk(goal)
	}
	var out []*Term
	done := map[string]bool{}
	allowed := map[string]bool{} // applications reached by a counting-down constant argument
	for level := 0; level < 18 && len(present) > 0; level++ {
		keys := make([]string, 0, len(present))
		for k := range present {
			keys = append(keys, k)
		}
		sort.Strings(keys)
		next := map[string]*Term{}
		for _, k := range keys {
			if done[k] {
				continue
			}
			if level >= 1 && !allowed[k] {
				continue
			}
			done[k] = true
			t := present[k]
			tpl := E.recTemplates[t.Name]
			m := map[string]*Term{}
			for i, p := range tpl.params {
				a := t.Args[i]
				if a.S.K == SInt && termSize(a) > 8 {
					// name large arguments: the unfolded body mentions them many times
					nv := E.fresh("u", a.S)
					out = append(out, Eq(nv, a))
					a = nv
				}
				m[p.Name] = a
			}
			ax := Eq(t, Subst(tpl.body, m))
			out = append(out, ax)
			// applications in the unfolded body: deeper unfolding only along a
			// constant argument that changes (bounded unrolling, e.g. the 8
			// bit-steps of a CRC), or when the parent was itself not recursive
			sub := map[string]*Term{}
			save := present
			present = sub
			walk(ax.Args[len(ax.Args)-1])
			present = save
			for sk, u := range sub {
				if done[sk] {
					continue
				}
				ok := u.Name != t.Name || level == 0 // one extra level is always unfolded
				if !ok {
					for i := range u.Args {
						if i < len(t.Args) && u.Args[i].IsConst() && t.Args[i].IsConst() && u.Args[i].C.Cmp(t.Args[i].C) != 0 {
							ok = true
						}
					}
				}
				if ok {
					allowed[sk] = true
					next[sk] = u
				}
			}
		}
		present = next
	}
	return out
}

// ---------------------------------------------------------------- obligations

func (E *Engine) addOblig(x *Exec, st *State, kind, label string, goal *Term, src, where string, extra []*Term) {
	name := fmt.Sprintf("%s.%s#%s:%s", shortPkg(fnPkgPath(x.fn)), relName(x.fn), kind, label)
	if x.caseName != "" {
		name += "|case=" + x.caseName
	}
	if goal.IsTrue() {
		// still counted: discharged by the simplifier
		o := E.getOblig(name, x, kind, label, src, where)
		o.Queries = append(o.Queries, &Query{Goal: goal, Result: "unsat", Solver: "simplifier", Path: strings.Join(st.trace, ",")})
		return
	}
	o := E.getOblig(name, x, kind, label, src, where)
	goal = E.skolemize(goal)
	hyps := append([]*Term(nil), st.pc...)
	hyps = append(hyps, extra...)
	// per-function hints
	if x.fc != nil && len(x.fc.Uses) > 0 {
		hyps = append(hyps, x.useHints(st)...)
	}
	q := &Query{Hyps: hyps, Goal: goal, Path: strings.Join(st.trace, ",")}
	q.Model, q.Names = x.modelTerms(st)
	o.X = x
	if x.fc != nil && len(x.fc.Insts) > 0 && x.topFrame != nil {
		q.Hints = x.instHints(st, goal)
	}
	o.Queries = append(o.Queries, q)
}

func shortPkg(p string) string {
	return strings.TrimPrefix(strings.TrimPrefix(p, repoMod+"/"), "github.com/")
}

func (E *Engine) getOblig(name string, x *Exec, kind, label, src, where string) *Oblig {
	o, ok := E.obligs[name]
	if !ok {
		o = &Oblig{Name: name, Fn: relName(x.fn), Kind: kind, Label: label, Src: src, Where: where, BV: x.tc.bv}
		E.obligs[name] = o
		E.order = append(E.order, name)
	}
	return o
}

// useHints: `use` clauses of the function under verification evaluated in the
// current state (lemma instances and extra ground facts proved separately).
func (x *Exec) useHints(st *State) []*Term {
	var out []*Term
	defer func() {
		if r := recover(); r != nil {
			if _, ok := r.(evalError); !ok {
				panic(r)
			}
		}
	}()
	top := x.topFrame
	if top == nil {
		return nil
	}
	env := x.envFor(st, top)
	for _, u := range x.fc.Uses {
		if !isLemmaUse(x.E, u.E) {
			x.E.configError(fmt.Sprintf("%s:%d: use: only applications of lemmas (possibly under forall) may be used", u.File, u.Line))
			continue
		}
		func() {
			defer func() {
				if r := recover(); r != nil {
					if _, ok := r.(evalError); !ok {
						panic(r)
					}
				}
			}()
			out = append(out, x.evalBool(env, u.E))
		}()
	}
	return out
}

// instHints evaluates the function's inst clauses against the goal's skolems.
func (x *Exec) instHints(st *State, goal *Term) map[string][]*Term {
	sk := map[string]*Term{}
	collectSkolems(goal, sk)
	env := x.envFor(st, x.topFrame)
	for n, v := range sk {
		env.vars[baseName(n)] = mathVal(v)
	}
	out := map[string][]*Term{}
	for _, h := range x.fc.Insts {
		func() {
			defer func() {
				if r := recover(); r != nil {
					if _, ok := r.(evalError); !ok {
						panic(r)
					}
				}
			}()
			v := x.eval(env, h.E)
			if len(v.L) == 1 && v.L[0].S.K == SInt {
				out[h.Binder] = append(out[h.Binder], v.L[0])
			}
		}()
	}
	return out
}

func isLemmaUse(E *Engine, e *SExpr) bool {
	for e.K == "forall" {
		e = e.X
	}
	return e.K == "call" && e.X.K == "ident" && E.lemmas[e.X.Name] != nil
}

// modelTerms: what to ask the solver for when a query is sat.
func (x *Exec) modelTerms(st *State) ([]*Term, []string) {
	if x.topFrame == nil || x.topFrame.entry == nil {
		return nil, nil
	}
	if x.mterms != nil && x.mtermsFor == x.topFrame {
		return x.mterms, x.mnames
	}
	var nts []namedTerm
	entry := x.topFrame.entry.clone()
	for _, p := range x.fn.Params {
		v, ok := x.topFrame.params[p.Name()]
		if !ok {
			continue
		}
		var part []namedTerm
		func() {
			defer func() { recover() }()
			if x.reifyTerms(entry, p.Name(), v, &part, 0) {
				nts = append(nts, part...)
			} else {
				for i, l := range v.L {
					if l.S.K != SArr {
						nts = append(nts, namedTerm{fmt.Sprintf("%s#%d", p.Name(), i), l})
					}
				}
			}
		}()
	}
	var ts []*Term
	var ns []string
	for _, nt := range nts {
		ts = append(ts, nt.T)
		ns = append(ns, nt.Name)
	}
	x.mterms, x.mnames, x.mtermsFor = ts, ns, x.topFrame
	return ts, ns
}

// ---------------------------------------------------------------- verifying a function

func (E *Engine) VerifyFunction(fn *ssa.Function, fc *FuncContract) {
	x := &Exec{E: E, fn: fn, fc: fc, tc: &TypeCtx{bv: fc.BV}, maxPath: 6000}
	E.curExec = x
	before := len(E.order)
	defer func() {
		if r := recover(); r != nil {
			msg := fmt.Sprint(r)
			if ee, ok := r.(evalError); ok {
				msg = "contract evaluation: " + ee.msg
			} else {
				if E.verbose {
					panic(r)
				}
			}
			if ee, ok := r.(evalError); ok && staleContract(ee.msg) {
				// the contract names something the function no longer has (a local, a field, an iterator): the
				// function is UNDECIDED on this tree, not violated - none of its obligations is reported
				E.markUndecided(shortPkg(fnPkgPath(fn))+"."+relName(fn), msg)
			} else {
				st := x.newState()
				x.dry = false
				x.topFrame = nil
				E.addOblig(x, st, "engine", "error", FalseT, msg, "", nil)
			}
		}
		rep := FuncReport{Name: shortPkg(fnPkgPath(fn)) + "." + relName(fn), Where: x.pos(fn.Pos()), Paths: x.npaths + 1,
			Obligs: len(E.order) - before, Contract: fmt.Sprintf("%s:%d", fc.File, fc.Line), SSAHash: ssaHash(fn)}
		if fc.BV {
			rep.Mode = "bv"
		} else {
			rep.Mode = "int"
		}
		E.verified = append(E.verified, rep)
		if E.fnByReportName == nil {
			E.fnByReportName = map[string]*ssa.Function{}
		}
		E.fnByReportName[rep.Name] = fn
	}()
	if fn.Blocks == nil {
		st := x.newState()
		E.addOblig(x, st, "engine", "no-body", FalseT, "function has no body", "", nil)
		return
	}
	st := x.newState()
	fr := x.newFrame(nil, fn, fc, nil)
	x.topFrame = fr
	fr.params = map[string]Val{}
	for _, p := range fn.Params {
		v := x.freshVal("in."+p.Name(), p.Type(), st)
		st.regs[p] = v
		fr.params[p.Name()] = v
	}
	for old, idx := range E.paramAliases(fn) {
		// a renamed parameter keeps answering to the name the contracts use
		if _, taken := fr.params[old]; !taken {
			fr.params[old] = fr.params[fn.Params[idx].Name()]
			E.noteAssumption(fmt.Sprintf("RENAMED PARAMETER: the contract of %s names %q; parameter %d is now called %q and is taken for it", fnKey(fn), old, idx, fn.Params[idx].Name()))
		}
	}
	for i, fv := range fn.FreeVars {
		v := x.freshVal("fv."+fv.Name(), fv.Type(), st)
		if len(v.L) == 1 && v.A == nil {
			st.assume(Not(Eq(v.L[0], IntC(0)))) // a captured variable's cell always exists
		}
		fr.freeVars = append(fr.freeVars, v)
		_ = i
	}
	// globals with known constant initialisers
	for _, f := range E.globalFacts(x, fn, fc) {
		st.assume(f)
	}
	env := &Env{x: x, st: st, old: st, vars: map[string]Val{}, pkgPath: fnPkgPath(fn), fc: fc}
	if len(fn.FreeVars) > 0 {
		env.fr = fr // captured variables are named in closure contracts
	}
	for n, v := range fr.params {
		env.vars[n] = v
	}
	x.bindGhost(env, fc, st)
	var ifc *FuncContract
	if in, ok := fc.Flags["implements"]; ok {
		ifc = E.contracts[fnPkgPath(fn)+"::"+strings.TrimSpace(in)]
		if ifc == nil {
			ifc = E.contracts[strings.TrimSpace(in)]
		}
		if ifc == nil {
			E.configError(fmt.Sprintf("%s:%d: implements %s: no such contract", fc.File, fc.Line, in))
		} else if len(fn.Params) > 0 {
			env.vars[E.recvNameFor(ifc)] = fr.params[fn.Params[0].Name()]
			// positional binding of the interface method's parameter names
			if pn, ok := ifc.Flags["params"]; ok {
				for i, n := range strings.Fields(pn) {
					if i+1 < len(fn.Params) {
						env.vars[n] = fr.params[fn.Params[i+1].Name()]
					}
				}
			}
			for _, r := range ifc.Requires {
				st.assume(x.evalBool(env, r.E))
			}
		}
	}
	for _, r := range fc.Requires {
		st.assume(x.evalBool(env, r.E))
	}
	for _, r := range fc.Assumes {
		st.assume(x.evalBool(env, r.E))
		E.noteAssumption(fmt.Sprintf("ASSUMED (unchecked) at entry of %s: %s: %s", relName(fn), r.Label, r.Src))
	}
	fr.entry = st.clone()
	// vacuity: preconditions satisfiable
	E.addCover(x, st, "requires")
	// "at call 0 of entry set g = expr": a ghost assignment executed when the function starts (old(g) in
	// its clauses is still the caller's value)
	for ai := range fc.Asserts {
		a := &fc.Asserts[ai]
		if a.Kind == "set" && a.Callee == "entry" {
			E.markAssertUsed(fc, ai)
			if v, ok := x.specVal(env, a.C.E, "set:"+a.Ghost); ok && len(v.L) == 1 {
				st.ghost["ghost!"+a.Ghost] = v.L[0]
			}
		}
	}
	results := fn.Signature.Results()
	var mkRet func(fr *Frame) func(st2 *State, res []Val)
	mkRet = func(fr *Frame) func(st2 *State, res []Val) {
		return func(st2 *State, res []Val) {
			penv := &Env{x: x, st: st2, old: fr.entry, vars: map[string]Val{}, pkgPath: fnPkgPath(fn), fc: fc}
			if len(fn.FreeVars) > 0 {
				penv.fr = fr // captured variables are named in closure contracts
			}
			for n, v := range fr.params {
				penv.vars[n] = v
			}
			for i, fv := range fn.FreeVars {
				_ = i
				_ = fv
			}
			x.bindGhost(penv, fc, st2)
			x.bindResults(penv, results, x.tupleOf(results, res))
			if x.nret < 4 {
				x.nret++
				E.addCover(x, st2, "returns")
			}
			// every return statement that the exploration reaches is reached by a satisfiable path (a
			// contradiction among assumed contracts or type invariants would make whole branches pass vacuously)
			if x.retSite != "" {
				if x.retSiteN == nil {
					x.retSiteN = map[string]int{}
				}
				x.retSiteN[x.retSite]++
				name := fmt.Sprintf("%s.%s#cover:return%s", shortPkg(fnPkgPath(x.fn)), relName(x.fn), x.retSite)
				if x.retSiteN[x.retSite] <= 6 {
					E.addCover(x, st2, "return"+x.retSite)
					if fc != nil && deadReturn(fc, x.retSite) {
						E.obligs[name].Partial = true // declared unreachable under the contract's assumptions
					}
				} else if o, ok := E.obligs[name]; ok {
					o.Partial = true
				}
			}
			for _, e := range fc.Ensures {
				E.addPost(x, st2, penv, e)
			}
			if len(fc.Exits) > 0 {
				xenv := *penv
				xenv.fr = fr
				for _, e := range fc.Exits {
					ee := e
					ee.Label = "exit." + e.Label
					if !x.exitInScope(&xenv, fn, e) {
						continue // a local named by the clause is not yet declared at this return
					}
					E.addPost(x, st2, &xenv, ee)
				}
			}
			if ifc != nil && len(fn.Params) > 0 {
				penv.vars[E.recvNameFor(ifc)] = fr.params[fn.Params[0].Name()]
				if pn, ok := ifc.Flags["params"]; ok {
					for i, n := range strings.Fields(pn) {
						if i+1 < len(fn.Params) {
							penv.vars[n] = fr.params[fn.Params[i+1].Name()]
						}
					}
				}
				for _, e := range ifc.Ensures {
					ie := e
					ie.Label = "iface." + labelOr(e, "ensures")
					E.addPost(x, st2, penv, ie)
				}
			}
		}
	}
	fr.ret = mkRet(fr)
	cases := fc.Cases
	if len(cases) == 0 {
		x.run(st, fr, fn.Blocks[0], 0, nil)
		return
	}
	// case split: each case is verified separately and names its obligations
	var neg []*Term
	for _, c := range cases {
		cst := st.clone()
		ct := x.evalBool(env, c.E)
		cst.assume(And(neg...))
		cst.assume(ct)
		neg = append(neg, Not(ct))
		x.caseName = labelOr(c, "case")
		cfr := *fr
		// equalities "input == constant" of the case are substituted into the
		// entry state, so that the case is verified over simpler terms
		sub := map[string]*Term{}
		for _, eq := range flattenAnd([]*Term{ct}) {
			if eq.Op == "=" && eq.Args[0].Op == "var" && eq.Args[1].IsConst() {
				sub[eq.Args[0].Name] = eq.Args[1]
			} else if eq.Op == "=" && eq.Args[1].Op == "var" && eq.Args[0].IsConst() {
				sub[eq.Args[1].Name] = eq.Args[0]
			}
		}
		if len(sub) > 0 {
			cst.substitute(sub)
			np := map[string]Val{}
			for n, v := range cfr.params {
				np[n] = substVal(v, sub)
			}
			cfr.params = np
		}
		cfr.entry = cst.clone()
		cfr.callOrd = map[string]int{}
		cfr.ret = mkRet(&cfr)
		x.topFrame = &cfr
		x.run(cst, &cfr, fn.Blocks[0], 0, nil)
	}
	x.caseName = "other"
	ost := st.clone()
	ost.assume(And(neg...))
	ofr := *fr
	ofr.entry = ost.clone()
	ofr.callOrd = map[string]int{}
	ofr.ret = mkRet(&ofr)
	x.topFrame = &ofr
	x.run(ost, &ofr, fn.Blocks[0], 0, nil)
	x.caseName = ""
}

// exitInScope: an exit clause applies to a return statement only when every local
// variable it names has been declared on the path to it.
func (x *Exec) exitInScope(env *Env, fn *ssa.Function, c Clause) (ok bool) {
	ok = true
	defer func() {
		if r := recover(); r != nil {
			ee, is := r.(evalError)
			if !is {
				panic(r)
			}
			const pre = "unknown identifier \""
			if strings.HasPrefix(ee.msg, pre) {
				name := strings.TrimSuffix(strings.TrimPrefix(ee.msg, pre), "\"")
				for _, l := range fn.Locals {
					if l.Comment == name {
						ok = false
						return
					}
				}
			}
			ok = true // reported by addPost
		}
	}()
	x.evalBool(env, c.E)
	return
}

func (E *Engine) addPost(x *Exec, st *State, env *Env, c Clause) {
	defer func() {
		if r := recover(); r != nil {
			if ee, ok := r.(evalError); ok {
				if staleContract(ee.msg) {
					E.noteStaleClause(x.fn, "post:"+labelOr(c, "ensures"), ee.msg)
					return
				}
				E.addOblig(x, st, "post", labelOr(c, "ensures"), FalseT, "contract evaluation: "+ee.msg, fmt.Sprintf("%s:%d", c.File, c.Line), nil)
				return
			}
			panic(r)
		}
	}()
	g := x.evalBool(env, c.E)
	label := labelOr(c, fmt.Sprintf("ensures@%d", c.Line))
	x.obligeNamed(st, "post", label, g, c.Src, fmt.Sprintf("%s:%d", c.File, c.Line))
	name := fmt.Sprintf("%s.%s#%s:%s", shortPkg(fnPkgPath(x.fn)), relName(x.fn), "post", label)
	if x.caseName != "" {
		name += "|case=" + x.caseName
	}
	if o, ok := E.obligs[name]; ok {
		o.Expr = c.E
	}
}

func (x *Exec) obligeNamed(st *State, kind, label string, g *Term, src, where string) {
	x.oblige(st, kind, label, g, src, where)
}

func (E *Engine) addCover(x *Exec, st *State, what string) {
	name := fmt.Sprintf("%s.%s#cover:%s", shortPkg(fnPkgPath(x.fn)), relName(x.fn), what)
	o := E.getOblig(name, x, "cover", what, "precondition and type invariants are satisfiable (vacuity check: must be sat)", "")
	var hyps []*Term
	for _, h := range flattenAnd(st.pc) {
		if h.Op != "forall" && !(h.Op == "=>" && h.Args[1].Op == "forall") {
			hyps = append(hyps, h)
		}
	}
	o.Queries = append(o.Queries, &Query{Hyps: hyps, Goal: nil, Path: strings.Join(st.trace, ",")})
}

func ssaHash(fn *ssa.Function) string {
	var sb strings.Builder
	fn.WriteTo(&sb)
	h := uint64(1469598103934665603)
	for _, c := range []byte(sb.String()) {
		h ^= uint64(c)
		h *= 1099511628211
	}
	return fmt.Sprintf("%016x", h)
}

// feasible: quick satisfiability probe of a path condition (used only to prune
// when a function has many paths); unknown counts as feasible.
func (E *Engine) feasible(st *State) bool {
	E.feasCount++
	// quantifier-free part of the path condition only (a cheap over-approximation of feasibility)
	var hyps []*Term
	for _, t := range st.pc {
		if !mentionsQuantifier(t) {
			hyps = append(hyps, t)
		}
	}
	script := Script(hyps, nil, false, nil)
	// a quick probe only: 150 ms soft limit inside the solver
	script = strings.Replace(script, "(check-sat)", "(set-option :timeout 150)\n(check-sat)", 1)
	res, _ := runSolver("z3-new", script, 1)
	return res != "unsat"
}

func mentionsQuantifier(t *Term) bool {
	if t.Op == "forall" || t.Op == "exists" || len(t.Bound) > 0 {
		return true
	}
	for _, a := range t.Args {
		if mentionsQuantifier(a) {
			return true
		}
	}
	return false
}

// deadReturn: the contract declares the K-th return statement unreachable ("flag deadreturns K K ...": typically an
// error branch behind a callee whose assumed contract never fails).
func deadReturn(fc *FuncContract, ord string) bool {
	for _, f := range strings.Fields(fc.Flags["deadreturns"]) {
		if f == ord {
			return true
		}
	}
	return false
}

// staleContract: the evaluation error says that the contract refers to something that is not (any longer) in the
// code - as opposed to a mistake inside the specification files themselves.
func staleContract(msg string) bool {
	for _, p := range []string{"unknown identifier", "no field ", "selector ", "cannot index", "rangepos(): no range", "visited(): the function needs",
		"deref: ", "apply: ", "typehas: ", "same(): different shapes", "cannot evaluate "} {
		if strings.HasPrefix(msg, p) {
			return true
		}
	}
	return false
}

// markUndecided: nothing is claimed about this function on this tree.
func (E *Engine) markUndecided(fname, why string) {
	if E.undecided == nil {
		E.undecided = map[string]string{}
	}
	if _, ok := E.undecided[fname]; !ok {
		E.undecided[fname] = why
	}
}

// specBool evaluates one clause of the contract of the function under verification.  A clause that names something
// the code no longer has (a renamed local, a removed field) is dropped for this run and recorded: it is reported as
// UNDECIDED, the function's other obligations are checked and reported as usual.
func (x *Exec) specBool(env *Env, e *SExpr, what string) (t *Term, ok bool) {
	defer func() {
		if r := recover(); r != nil {
			if ee, isE := r.(evalError); isE && staleContract(ee.msg) {
				x.E.noteStaleClause(x.fn, what, ee.msg)
				t, ok = nil, false
				return
			}
			panic(r)
		}
	}()
	return x.evalBool(env, e), true
}

// specVal: like specBool for the right-hand side of a ghost update.
func (x *Exec) specVal(env *Env, e *SExpr, what string) (v Val, ok bool) {
	defer func() {
		if r := recover(); r != nil {
			if ee, isE := r.(evalError); isE && staleContract(ee.msg) {
				x.E.noteStaleClause(x.fn, what, ee.msg)
				ok = false
				return
			}
			panic(r)
		}
	}()
	return x.eval(env, e), true
}

func (E *Engine) noteStaleClause(fn *ssa.Function, what, msg string) {
	if E.staleClauses == nil {
		E.staleClauses = map[string]string{}
	}
	key := shortPkg(fnPkgPath(fn)) + "." + relName(fn) + "#" + what
	if _, ok := E.staleClauses[key]; !ok {
		E.staleClauses[key] = msg
	}
}

// ---------------------------------------------------------------- positions of named locals (rename robustness)

type localHint struct {
	Name string `json:"name"`
	Type string `json:"type"`
	Ord  int    `json:"ord"` // rank among the named locals of that type, in declaration order (1-based)
}

func hintsPath() string { return filepath.Join(verifRoot, "contracts", "local_hints.json") }

func fnKey(fn *ssa.Function) string { return shortPkg(fnPkgPath(fn)) + "." + relName(fn) }

// namedLocals: the named local variables of fn in declaration order, with their rank per type.
func namedLocals(fn *ssa.Function) []localHint {
	var out []localHint
	for i, p := range fn.Params {
		out = append(out, localHint{Name: p.Name(), Type: "param:" + p.Type().String(), Ord: i})
	}
	per := map[string]int{}
	seen := map[string]bool{}
	for _, b := range fn.Blocks {
		for _, in := range b.Instrs {
			al, ok := in.(*ssa.Alloc)
			if !ok || al.Comment == "" || strings.ContainsAny(al.Comment, " .$") {
				continue
			}
			t := al.Type().String()
			per[t]++
			if seen[al.Comment] {
				continue // shadowed names are addressed as name#N, not through hints
			}
			seen[al.Comment] = true
			out = append(out, localHint{Name: al.Comment, Type: t, Ord: per[t]})
		}
	}
	return out
}

// paramHintIndex: the index the parameter called name had on the unchanged tree (-1: unknown).
func (E *Engine) paramHintIndex(fn *ssa.Function, name string) int {
	E.loadHints()
	for _, h := range E.hints[fnKey(fn)] {
		if h.Name == name && strings.HasPrefix(h.Type, "param:") {
			return h.Ord
		}
	}
	return -1
}

func (E *Engine) loadHints() {
	if E.hints != nil {
		return
	}
	E.hints = map[string][]localHint{}
	if b, err := os.ReadFile(hintsPath()); err == nil {
		json.Unmarshal(b, &E.hints)
	}
}

// localByHint: the local of fn that stands where the local called name stood on the unchanged tree.
func (E *Engine) localByHint(fn *ssa.Function, name string) *ssa.Alloc {
	E.loadHints()
	for _, h := range E.hints[fnKey(fn)] {
		if h.Name != name || strings.HasPrefix(h.Type, "param:") {
			continue
		}
		n := 0
		for _, b := range fn.Blocks {
			for _, in := range b.Instrs {
				al, ok := in.(*ssa.Alloc)
				if !ok || al.Comment == "" || strings.ContainsAny(al.Comment, " .$") || al.Type().String() != h.Type {
					continue
				}
				n++
				if n == h.Ord {
					// only a local whose own name is not used by the contracts as another variable can stand in
					for _, o := range E.hints[fnKey(fn)] {
						if o.Name == al.Comment {
							return nil
						}
					}
					E.noteAssumption(fmt.Sprintf("RENAMED LOCAL: the contract of %s names %q; no such local exists, the local %q at the same position (type and declaration rank) is taken for it", fnKey(fn), name, al.Comment))
					return al
				}
			}
		}
	}
	return nil
}

// writeHints records the named locals of every function verified in this run (GOVC_WRITE_HINTS=1, on the unchanged tree).
func (E *Engine) writeHints() {
	E.loadHints()
	for _, rep := range E.verified {
		if fn := E.fnByReportName[rep.Name]; fn != nil {
			E.hints[rep.Name] = namedLocals(fn)
		}
	}
	b, _ := json.MarshalIndent(E.hints, "", " ")
	os.WriteFile(hintsPath(), b, 0o644)
}

// paramAliases: for a function whose parameters were renamed since the hints were written, the old names (as the
// contracts use them) mapped to the index of the parameter that stands in their place.
func (E *Engine) paramAliases(fn *ssa.Function) map[string]int {
	if fn == nil {
		return nil
	}
	E.loadHints()
	known := map[string]bool{}
	for _, h := range E.hints[fnKey(fn)] {
		known[h.Name] = true
	}
	out := map[string]int{}
	for _, h := range E.hints[fnKey(fn)] {
		if !strings.HasPrefix(h.Type, "param:") || h.Ord < 0 || h.Ord >= len(fn.Params) {
			continue
		}
		cur := fn.Params[h.Ord]
		if cur.Name() == h.Name || known[cur.Name()] || "param:"+cur.Type().String() != h.Type {
			continue
		}
		out[h.Name] = h.Ord
	}
	return out
}
