package main

// Symbolic values: every Go value is flattened into a list of leaf terms whose
// shape is determined by its type.

import (
	"fmt"
	"go/types"
	"math/big"
	"regexp"
	"strings"

	"golang.org/x/tools/go/ssa"
)

type AddrKind int

const (
	ALocal  AddrKind = iota // non-escaping local variable
	AHeap                   // object on the modelled heap: heap key + ref
	AElem                   // element of a slice/array backing store: mem key + ref + index
	AGlobal                 // package-level variable
)

// Addr is a structured address held in an SSA register.
type Addr struct {
	K     AddrKind
	Alloc *ssa.Alloc // ALocal
	Key   string     // AHeap: heap type key; AElem: mem type key; AGlobal: global name
	Ref   *Term      // AHeap / AElem
	Idx   *Term      // AElem
	Off   int        // leaf offset inside the object
	T     types.Type // type of the addressed location
	contT types.Type // type of the containing object (whose leaves Off indexes)
	// ArrIdx: set when the address points into an array-typed leaf ([N]T field or local): element index
	ArrIdx *Term
}

type Val struct {
	T types.Type // nil for mathematical spec values
	L []*Term
	A *Addr // structured pointer (then L is empty)
	// for closures created in the current function
	Fn       interface{} // *ssa.Function for MakeClosure / function values
	Src      *Addr       // heap address the value was loaded from (provenance)
	Max      *big.Int    // known upper bound of a non-negative scalar (bit-operation linearisation)
	TZ       int         // known number of trailing zero bits
	Bindings []Val
}

func (v Val) Term() *Term {
	if len(v.L) != 1 {
		panic(fmt.Sprintf("Val.Term on %d leaves (type %v)", len(v.L), v.T))
	}
	return v.L[0]
}

func mathVal(t *Term) Val { return Val{L: []*Term{t}} }

type leafInfo struct {
	Path string
	S    *Sort
	T    types.Type // Go type of the leaf where scalar
}

type TypeCtx struct {
	bv    bool // bit-vector mode
	cache map[string][]leafInfo
}

func isFloat(t types.Type) bool {
	if t == nil {
		return false
	}
	b, ok := t.Underlying().(*types.Basic)
	return ok && b.Info()&types.IsFloat != 0
}

func intInfo(t types.Type) (bits int, signed bool, ok bool) {
	if t == nil {
		return 0, false, false
	}
	b, isb := t.Underlying().(*types.Basic)
	if !isb || b.Info()&types.IsInteger == 0 {
		return 0, false, false
	}
	switch b.Kind() {
	case types.Int8:
		return 8, true, true
	case types.Int16:
		return 16, true, true
	case types.Int32:
		return 32, true, true
	case types.Int64, types.Int, types.UntypedInt, types.UntypedRune:
		return 64, true, true
	case types.Uint8:
		return 8, false, true
	case types.Uint16:
		return 16, false, true
	case types.Uint32:
		return 32, false, true
	case types.Uint64, types.Uint, types.Uintptr:
		return 64, false, true
	}
	return 0, false, false
}

func (tc *TypeCtx) scalarSort(t types.Type) *Sort {
	if tc.bv {
		if w, _, ok := intInfo(t); ok {
			return BVS(w)
		}
	}
	if b, ok := t.Underlying().(*types.Basic); ok && b.Info()&types.IsBoolean != 0 {
		return BoolS
	}
	return IntS
}

func typeKey(t types.Type) string {
	s := types.TypeString(t, func(p *types.Package) string { return p.Path() })
	// byte and rune are aliases: one memory per underlying type
	if strings.Contains(s, "byte") || strings.Contains(s, "rune") {
		s = aliasRe.ReplaceAllStringFunc(s, func(m string) string {
			if m == "byte" {
				return "uint8"
			}
			return "int32"
		})
	}
	return s
}

var aliasRe = regexp.MustCompile(`\b(byte|rune)\b`)

func (tc *TypeCtx) leaves(t types.Type) []leafInfo {
	k := typeKey(t)
	if tc.cache == nil {
		tc.cache = map[string][]leafInfo{}
	}
	if l, ok := tc.cache[k]; ok {
		return l
	}
	var out []leafInfo
	idxS := IntS
	if tc.bv {
		idxS = BVS(64)
	}
	switch u := t.Underlying().(type) {
	case *types.Basic:
		if u.Info()&types.IsString != 0 {
			out = []leafInfo{{"ref", IntS, nil}, {"off", idxS, nil}, {"len", idxS, nil}}
		} else {
			out = []leafInfo{{"", tc.scalarSort(t), t}}
		}
	case *types.Slice:
		out = []leafInfo{{"ref", IntS, nil}, {"off", idxS, nil}, {"len", idxS, nil}, {"cap", idxS, nil}}
	case *types.Pointer, *types.Map, *types.Chan, *types.Signature:
		out = []leafInfo{{"", IntS, t}}
	case *types.Interface:
		out = []leafInfo{{"tag", IntS, nil}, {"ref", IntS, nil}}
	case *types.Struct:
		for i := 0; i < u.NumFields(); i++ {
			f := u.Field(i)
			for _, l := range tc.leaves(f.Type()) {
				p := f.Name()
				if l.Path != "" {
					p += "." + l.Path
				}
				out = append(out, leafInfo{p, l.S, l.T})
			}
		}
	case *types.Array:
		// arrays live in element memory like slice backing stores: the leaf
		// is the reference of the backing store (value semantics are
		// restored by copying on store)
		out = []leafInfo{{"arr", IntS, nil}}
	case *types.Tuple:
		for i := 0; i < u.Len(); i++ {
			for _, l := range tc.leaves(u.At(i).Type()) {
				out = append(out, leafInfo{fmt.Sprintf("%d.%s", i, l.Path), l.S, l.T})
			}
		}
	default:
		panic(fmt.Sprintf("leaves: unsupported type %v (%T)", t, u))
	}
	tc.cache[k] = out
	return out
}

func (tc *TypeCtx) nleaves(t types.Type) int { return len(tc.leaves(t)) }

// fieldRange gives the leaf offset and type of field i of struct type t.
func (tc *TypeCtx) fieldRange(t types.Type, i int) (off int, ft types.Type) {
	st := t.Underlying().(*types.Struct)
	for j := 0; j < i; j++ {
		off += tc.nleaves(st.Field(j).Type())
	}
	return off, st.Field(i).Type()
}

func (tc *TypeCtx) tupleRange(t *types.Tuple, i int) (off int, ft types.Type) {
	for j := 0; j < i; j++ {
		off += tc.nleaves(t.At(j).Type())
	}
	return off, t.At(i).Type()
}

// ---------------------------------------------------------------- ranges of machine integers

func intRange(t types.Type) (lo, hi *big.Int, ok bool) {
	w, s, ok := intInfo(t)
	if !ok {
		return nil, nil, false
	}
	if s {
		hi = new(big.Int).Sub(Pow2(w-1), big.NewInt(1))
		lo = new(big.Int).Neg(Pow2(w - 1))
	} else {
		lo = big.NewInt(0)
		hi = new(big.Int).Sub(Pow2(w), big.NewInt(1))
	}
	return lo, hi, true
}

// rangeFact: lo <= t <= hi for an Int-sorted term of integer Go type.
func rangeFact(t *Term, ty types.Type) *Term {
	if t.S.K != SInt {
		return TrueT
	}
	lo, hi, ok := intRange(ty)
	if !ok {
		return TrueT
	}
	return And(Le(BigC(lo), t), Le(t, BigC(hi)))
}

// wrap brings a mathematical result back into the range of type ty (Go's
// wrap-around semantics), using an ite when the result is known to be within
// one modulus of the range (add/sub) and mod otherwise.
func wrapAddSub(t *Term, ty types.Type) *Term {
	lo, hi, ok := intRange(ty)
	if !ok || t.S.K != SInt {
		return t
	}
	if t.IsConst() {
		return wrapConst(t, ty)
	}
	w, _, _ := intInfo(ty)
	m := BigC(Pow2(w))
	return Ite(Gt(t, BigC(hi)), Sub(t, m), Ite(Lt(t, BigC(lo)), Add(t, m), t))
}

func wrapConst(t *Term, ty types.Type) *Term {
	lo, _, _ := intRange(ty)
	w, _, _ := intInfo(ty)
	m := Pow2(w)
	x := new(big.Int).Sub(t.C, lo)
	x.Mod(x, m)
	x.Add(x, lo)
	return BigC(x)
}

func wrapMod(t *Term, ty types.Type) *Term {
	lo, _, ok := intRange(ty)
	if !ok || t.S.K != SInt {
		return t
	}
	if t.IsConst() {
		return wrapConst(t, ty)
	}
	w, _, _ := intInfo(ty)
	m := BigC(Pow2(w))
	if lo.Sign() == 0 {
		return Mod(t, m)
	}
	return Add(Mod(Sub(t, BigC(lo)), m), BigC(lo))
}

func sanitize(s string) string {
	r := strings.NewReplacer("/", "_", "*", "P", "(", "", ")", "", " ", "", "[", "L", "]", "R", "{", "", "}", "", ";", "_", ",", "_")
	return r.Replace(s)
}
