package main

// Query preparation (skolemisation, hand instantiation of quantified
// hypotheses) and solver racing.

import (
	"bytes"
	"context"
	"crypto/sha256"
	"fmt"
	"hash"
	"os"
	"os/exec"
	"sort"
	"strings"
	"sync"
	"time"
)

// skolemize removes universal quantifiers in positive positions of a goal.
func (E *Engine) skolemize(g *Term) *Term {
	switch g.Op {
	case "forall":
		m := map[string]*Term{}
		for _, b := range g.Bound {
			m[b.Name] = E.fresh("sk."+strings.SplitN(b.Name, "!", 2)[0], b.S)
		}
		return E.skolemize(Subst(g.Args[0], m))
	case "and":
		out := make([]*Term, len(g.Args))
		for i, a := range g.Args {
			out[i] = E.skolemize(a)
		}
		return And(out...)
	case "=>":
		return Implies(E.negSkolem(g.Args[0]), E.skolemize(g.Args[1]))
	case "not":
		return Not(E.negSkolem(g.Args[0]))
	case "or":
		out := make([]*Term, len(g.Args))
		for i, a := range g.Args {
			out[i] = E.skolemize(a)
		}
		return Or(out...)
	}
	return g
}

// negSkolem: existentials in negative positions.
func (E *Engine) negSkolem(g *Term) *Term {
	switch g.Op {
	case "exists":
		m := map[string]*Term{}
		for _, b := range g.Bound {
			m[b.Name] = E.fresh("sk."+strings.SplitN(b.Name, "!", 2)[0], b.S)
		}
		return E.negSkolem(Subst(g.Args[0], m))
	case "and":
		out := make([]*Term, len(g.Args))
		for i, a := range g.Args {
			out[i] = E.negSkolem(a)
		}
		return And(out...)
	case "not":
		return Not(E.skolemize(g.Args[0]))
	}
	return g
}

type qpattern struct {
	binder string
	offset *Term // nil: index is the binder itself
	neg    bool  // index is offset - binder
}

func addSummands(t *Term, out *[]*Term) {
	if t.Op == "+" {
		for _, a := range t.Args {
			addSummands(a, out)
		}
		return
	}
	*out = append(*out, t)
}

func collectPatterns(t *Term, binders map[string]bool, out *[]qpattern) {
	check := func(ix *Term) {
		if ix.S.K != SInt {
			return
		}
		if ix.Op == "var" && binders[ix.Name] {
			*out = append(*out, qpattern{binder: ix.Name})
			return
		}
		if ix.Op == "+" {
			var sum []*Term
			addSummands(ix, &sum)
			bi := -1
			for i, a := range sum {
				if a.Op == "var" && binders[a.Name] {
					if bi >= 0 {
						return // two binders in one index: no single-binder pattern
					}
					bi = i
				} else if mentions(a, binders) {
					return
				}
			}
			if bi >= 0 {
				var off *Term = IntC(0)
				for i, a := range sum {
					if i != bi {
						off = Add(off, a)
					}
				}
				*out = append(*out, qpattern{binder: sum[bi].Name, offset: off})
			}
			return
		}
		if ix.Op == "-" && len(ix.Args) == 2 {
			a, b := ix.Args[0], ix.Args[1]
			if a.Op == "var" && binders[a.Name] && !mentions(b, binders) {
				*out = append(*out, qpattern{binder: a.Name, offset: Neg(b)})
			}
		}
	}
	switch t.Op {
	case "select", "store":
		check(t.Args[1])
	case "mod", "div":
		check(t.Args[0])
	case "app":
		for _, a := range t.Args {
			check(a)
		}
	}
	for _, a := range t.Args {
		collectPatterns(a, binders, out)
	}
}

func collectSkolems(t *Term, out map[string]*Term) {
	if t.Op == "var" && strings.HasPrefix(t.Name, "sk.") && t.S.K == SInt {
		out[t.Name] = t
	}
	for _, a := range t.Args {
		collectSkolems(a, out)
	}
}

func baseName(n string) string {
	n = strings.TrimPrefix(n, "sk.")
	if i := strings.Index(n, "!"); i >= 0 {
		n = n[:i]
	}
	return n
}

func mentions(t *Term, names map[string]bool) bool {
	if t.Op == "var" {
		return names[t.Name]
	}
	for _, a := range t.Args {
		if mentions(a, names) {
			return true
		}
	}
	return false
}

func flattenAnd(ts []*Term) []*Term {
	var out []*Term
	for _, t := range ts {
		if t.Op == "and" {
			out = append(out, flattenAnd(t.Args)...)
		} else if !t.IsTrue() {
			out = append(out, t)
		}
	}
	return out
}

// prepare: skolemise the goal, instantiate quantified hypotheses at the index
// terms that occur in the goal (goal-directed, two rounds, bounded).  Returns
// the ground hypotheses (with instances), the quantified originals, the goal.
func (E *Engine) prepare(hyps []*Term, goal *Term) ([]*Term, *Term) {
	g, q, goal2 := E.prepare2(hyps, goal, nil)
	return append(g, q...), goal2
}

func (E *Engine) prepare2(hyps []*Term, goal *Term, hints map[string][]*Term) (groundOut, quantOut []*Term, goalOut *Term) {
	E.lastCuts = nil
	hyps = flattenAnd(hyps)
	var origGoal *Term
	if goal != nil {
		goal = E.skolemize(goal)
		origGoal = goal
		// a goal "A ==> exists j. P(j)" is refuted from A and "forall j. !P(j)":
		// the universal is then instantiated like any other hypothesis
		for changed := true; changed; {
			changed = false
			switch {
			case goal.Op == "exists":
				hyps = append(hyps, Forall(goal.Bound, Not(goal.Args[0])))
				goal = FalseT
				changed = true
			case goal.Op == "=>":
				hyps = append(hyps, flattenAnd([]*Term{goal.Args[0]})...)
				goal = goal.Args[1]
				changed = true
			case goal.Op == "or":
				// A || exists ... : assume the negation of the other disjuncts
				idx := -1
				for i, a := range goal.Args {
					if a.Op == "exists" {
						idx = i
					}
				}
				if idx >= 0 {
					for i, a := range goal.Args {
						if i != idx {
							hyps = append(hyps, Not(a))
						}
					}
					goal = goal.Args[idx]
					changed = true
				}
			}
		}
	}
	var ground, quant []*Term
	for _, h := range hyps {
		h = E.hypSkolem(h)
		if h.Op == "forall" {
			quant = append(quant, h)
		} else if h.Op == "=>" && h.Args[1].Op == "forall" {
			q := h.Args[1]
			quant = append(quant, &Term{Op: "forall", S: BoolS, Bound: q.Bound, Args: []*Term{Implies(h.Args[0], q.Args[0])}})
		} else if h.Op == "=>" && h.Args[1].Op == "and" {
			// guard ==> (A && forall ...): split
			var rest []*Term
			for _, c := range h.Args[1].Args {
				if c.Op == "forall" {
					quant = append(quant, &Term{Op: "forall", S: BoolS, Bound: c.Bound, Args: []*Term{Implies(h.Args[0], c.Args[0])}})
				} else {
					rest = append(rest, c)
				}
			}
			ground = append(ground, Implies(h.Args[0], And(rest...)))
		} else {
			ground = append(ground, h)
		}
	}
	ground = append(ground, E.recAxiomsFor(ground, goal)...)
	if len(quant) == 0 {
		return ground, nil, goal
	}
	out := append([]*Term(nil), ground...)
	seen := map[string]bool{}
	cands := map[string]*Term{}
	b := map[string]int{}
	if origGoal != nil {
		indexTerms(origGoal, cands, b)
	}
	if len(cands) < 4 {
		// arithmetic-only goal: take the smallest index terms of the ground hypotheses
		extra := map[string]*Term{}
		for _, h := range ground {
			indexTerms(h, extra, b)
		}
		ks := sortedBySize(extra)
		for i := 0; i < len(ks) && i < 12; i++ {
			cands[ks[i]] = extra[ks[i]]
		}
	}
	known := map[string]bool{}
	skolems := map[string]*Term{}
	if origGoal != nil {
		collectSkolems(origGoal, skolems)
	}
	for _, h := range ground {
		if len(skolems) > 12 {
			break
		}
		collectSkolems(h, skolems)
	}
	for round := 0; round < 3; round++ {
		keys := sortedBySize(cands)
		limit1, limit2 := 30, 8
		if round == 1 {
			limit1, limit2 = 14, 5
		}
		if round == 2 {
			limit1, limit2 = 8, 3
		}
		if len(keys) > limit1 {
			keys = keys[:limit1]
		}
		for _, k := range keys {
			known[k] = true
		}
		var produced []*Term
		for _, q := range quant {
			binders := map[string]bool{}
			for _, bv := range q.Bound {
				binders[bv.Name] = true
			}
			var pats []qpattern
			collectPatterns(q.Args[0], binders, &pats)
			per := map[string]map[string]*Term{}
			names := make([]string, 0, len(q.Bound))
			okSorts := true
			for _, bv := range q.Bound {
				per[bv.Name] = map[string]*Term{}
				names = append(names, bv.Name)
				if bv.S.K != SInt {
					okSorts = false
				}
			}
			if !okSorts {
				continue
			}
			for _, p := range pats {
				for _, k := range keys {
					v := cands[k]
					if p.offset != nil {
						v = Sub(v, p.offset)
					}
					per[p.binder][v.String()] = v
				}
			}
			prio := map[string][]string{}
			for _, bn := range names {
				if hs := hints[baseName(bn)]; len(hs) > 0 && strings.HasPrefix(baseName(bn), "t") && len(baseName(bn)) == 2 {
					// binders with dedicated hints (tb, tp, ...): only the hinted instances
					per[bn] = map[string]*Term{}
				}
				for _, ht := range hints[baseName(bn)] {
					per[bn][ht.String()] = ht
					prio[bn] = append(prio[bn], ht.String())
				}
				for _, sn := range sortedKeysT(skolems) {
					sv := skolems[sn]
					if hs := hints[baseName(bn)]; len(hs) > 0 && strings.HasPrefix(baseName(bn), "t") && len(baseName(bn)) == 2 {
						break
					}
					per[bn][sv.String()] = sv
					if baseName(sn) == baseName(bn) {
						prio[bn] = append(prio[bn], sv.String())
					}
				}
			}
			lim := limit1
			if len(names) > 1 {
				lim = limit2
			}
			count := 0
			var rec func(i int, m map[string]*Term)
			rec = func(i int, m map[string]*Term) {
				if count > 200 {
					return
				}
				if i == len(names) {
					inst := Subst(q.Args[0], m)
					if inst.IsTrue() {
						return
					}
					s := inst.String()
					if !seen[s] {
						seen[s] = true
						out = append(out, inst)
						produced = append(produced, inst)
						count++
					}
					return
				}
				vk := sortedBySize(per[names[i]])
				if pr := prio[names[i]]; len(pr) > 0 {
					inPr := map[string]bool{}
					for _, k := range pr {
						inPr[k] = true
					}
					nv := append([]string(nil), pr...)
					for _, k := range vk {
						if !inPr[k] {
							nv = append(nv, k)
						}
					}
					vk = nv
				}
				if len(vk) > lim {
					vk = vk[:lim]
				}
				for _, k := range vk {
					m[names[i]] = per[names[i]][k]
					rec(i+1, m)
				}
				delete(m, names[i])
			}
			rec(0, map[string]*Term{})
			if E.debugQ {
				qs := q.String()
				if len(qs) > 260 {
					qs = qs[:260]
				}
				fmt.Printf("  [inst round %d] %d instances for %s\n", round, count, qs)
				for _, bn := range names {
					vk := sortedBySize(per[bn])
					if len(vk) > 6 {
						vk = vk[:6]
					}
					fmt.Printf("      %s: prio=%d cands=%d e.g. %v\n", bn, len(prio[bn]), len(per[bn]), trunc(vk, 60))
				}
			}
		}
		if len(produced) == 0 {
			break
		}
		E.lastCuts = append(E.lastCuts, len(out))
		// next round: index terms that are new in the produced instances
		next := map[string]*Term{}
		for _, inst := range produced {
			indexTerms(inst, next, b)
		}
		cands = map[string]*Term{}
		for k, v := range next {
			if !known[k] {
				cands[k] = v
			}
		}
		out = append(out, E.recAxiomsFor(produced, nil)...)
		if len(cands) == 0 {
			break
		}
	}
	return out, quant, goal
}

func trunc(ss []string, n int) []string {
	out := make([]string, len(ss))
	for i, s := range ss {
		if len(s) > n {
			s = s[:n] + "…"
		}
		out[i] = s
	}
	return out
}

func sortedBySize(m map[string]*Term) []string {
	ks := make([]string, 0, len(m))
	for k := range m {
		ks = append(ks, k)
	}
	sort.Slice(ks, func(i, j int) bool {
		if len(ks[i]) != len(ks[j]) {
			return len(ks[i]) < len(ks[j])
		}
		return ks[i] < ks[j]
	})
	return ks
}

// hypSkolem: existentials in positive positions of a hypothesis are replaced by
// fresh constants (top level, under the consequent of an implication, under
// conjunctions and in the branches of a disjunction).
func (E *Engine) hypSkolem(h *Term) *Term {
	switch h.Op {
	case "exists":
		m := map[string]*Term{}
		for _, b := range h.Bound {
			m[b.Name] = E.fresh("sk."+strings.SplitN(b.Name, "!", 2)[0], b.S)
		}
		return E.hypSkolem(Subst(h.Args[0], m))
	case "=>":
		return Implies(h.Args[0], E.hypSkolem(h.Args[1]))
	case "and":
		out := make([]*Term, len(h.Args))
		for i, a := range h.Args {
			out[i] = E.hypSkolem(a)
		}
		return And(out...)
	case "or":
		out := make([]*Term, len(h.Args))
		for i, a := range h.Args {
			out[i] = E.hypSkolem(a)
		}
		return Or(out...)
	}
	return h
}

func (E *Engine) negSkolemTop(h *Term) *Term {
	if h.Op == "exists" {
		return E.negSkolem(h)
	}
	return h
}

// ---------------------------------------------------------------- solvers

type solverSpec struct {
	name string
	args func(timeoutS int) []string
}

var solvers = []solverSpec{
	{"z3-new", func(t int) []string { return []string{"z3-new", fmt.Sprintf("-T:%d", t), "-in"} }},
	{"z3", func(t int) []string { return []string{"z3", fmt.Sprintf("-T:%d", t), "-in"} }},
	{"cvc5", func(t int) []string {
		return []string{"cvc5", "--lang=smt2", fmt.Sprintf("--tlimit=%d", t*1000), "--produce-models", "--arrays-exp"}
	}},
}

func solverByName(n string) solverSpec {
	for _, s := range solvers {
		if s.name == n {
			return s
		}
	}
	return solvers[0]
}

func runSolverCtx(ctx context.Context, name, script string, timeoutS int) (string, string) {
	sp := solverByName(name)
	args := sp.args(timeoutS)
	cctx, cancel := context.WithTimeout(ctx, time.Duration(timeoutS+2)*time.Second)
	defer cancel()
	cmd := exec.CommandContext(cctx, args[0], args[1:]...)
	cmd.Stdin = strings.NewReader(script)
	var out bytes.Buffer
	cmd.Stdout = &out
	cmd.Stderr = &out
	cmd.Run()
	text := out.String()
	first := strings.TrimSpace(strings.SplitN(text, "\n", 2)[0])
	switch first {
	case "sat", "unsat":
		return first, text
	case "unknown":
		return "unknown", text
	case "timeout":
		return "timeout", text
	}
	if cctx.Err() != nil {
		return "timeout", text
	}
	if strings.Contains(text, "error") || strings.Contains(text, "Error") {
		return "error", text
	}
	return "unknown", text
}

func runSolver(name, script string, timeoutS int) (string, string) {
	return runSolverCtx(context.Background(), name, script, timeoutS)
}

// race: z3-new first with a short limit on the ground script (or the full one
// when there is none), then every solver on both scripts in parallel.  An
// "unsat" from either script discharges the query ("unsat" of the ground part
// implies "unsat" of the full one); "sat" is only believed for the full script.
func race(script, ground string, timeoutS int) (res, solver, output string, secs float64) {
	t0 := time.Now()
	quick := 2
	if timeoutS < quick {
		quick = timeoutS
	}
	first := script
	if ground != "" {
		first = ground
	}
	r, out := runSolver("z3-new", first, quick)
	if r == "unsat" || (r == "sat" && ground == "") {
		return r, "z3-new", out, time.Since(t0).Seconds()
	}
	ctx, cancel := context.WithCancel(context.Background())
	defer cancel()
	type ans struct {
		r, s, o string
		g       bool
	}
	n := 0
	ch := make(chan ans, 8)
	launch := func(name, sc string, isGround bool) {
		n++
		go func() {
			r, o := runSolverCtx(ctx, name, sc, timeoutS)
			ch <- ans{r, name, o, isGround}
		}()
	}
	for _, sp := range solvers {
		launch(sp.name, script, false)
	}
	if ground != "" {
		launch("z3-new", ground, true)
		launch("z3", ground, true)
	}
	var last ans
	outs := ""
	for i := 0; i < n; i++ {
		a := <-ch
		if a.r == "unsat" || (a.r == "sat" && !a.g) {
			return a.r, a.s, a.o, time.Since(t0).Seconds()
		}
		if !a.g {
			last = a
			outs += fmt.Sprintf("[%s] %s\n", a.s, strings.TrimSpace(firstLines(a.o, 3)))
		}
	}
	return last.r, "none", outs, time.Since(t0).Seconds()
}

func firstLines(s string, n int) string {
	l := strings.SplitN(s, "\n", n+1)
	if len(l) > n {
		l = l[:n]
	}
	return strings.Join(l, "\n")
}

const maxScript = 6000 * 1024

// Discharge runs every query of every obligation.
// scriptHash (GOVC_SCRIPT_HASH=1): a digest of every generated SMT script, to test that generation is deterministic
var scriptHash hash.Hash
var dumpN int

func init() {
	if os.Getenv("GOVC_SCRIPT_HASH") != "" {
		scriptHash = sha256.New()
	}
}

func (E *Engine) Discharge(par int) {
	defer func() {
		if scriptHash != nil {
			fmt.Printf("script-hash %x\n", scriptHash.Sum(nil)[:8])
		}
	}()
	type job struct {
		o *Oblig
		q *Query
	}
	var jobs []job
	for _, n := range E.order {
		o := E.obligs[n]
		for _, q := range o.Queries {
			if q.Result != "" {
				continue
			}
			jobs = append(jobs, job{o, q})
		}
	}
	// scripts are produced sequentially (fresh-name counter), solved in parallel
	strUsed := func(ts []*Term, g *Term) map[string]bool {
		used := map[string]bool{}
		var walk func(t *Term)
		walk = func(t *Term) {
			if t.Op == "const" && t.S.K == SInt && t.C.Sign() < 0 {
				if _, ok := E.strByRef[t.String()]; ok {
					used[t.String()] = true
				}
			}
			for _, a := range t.Args {
				walk(a)
			}
		}
		for _, t := range ts {
			walk(t)
		}
		if g != nil {
			walk(g)
		}
		return used
	}
	for _, j := range jobs {
		E.debugQ = false
		if d := os.Getenv("GOVC_DEBUG_OBLIG"); d != "" && strings.Contains(j.o.Name, d) {
			E.debugQ = true
			fmt.Printf("[debug] %s path=%s hints=%d\n", j.o.Name, j.q.Path, len(j.q.Hints))
		}
		ground, quant, goal := E.prepare2(j.q.Hyps, j.q.Goal, j.q.Hints)
		x := &Exec{E: E, tc: &TypeCtx{}}
		x.tc.bv = j.o.BV
		all := append(append([]*Term(nil), ground...), quant...)
		facts := E.strConstFacts(x, strUsed(all, goal))
		ground = append(ground, facts...)
		if len(quant) > 0 && goal != nil {
			// smaller ground scripts first: the instances of the first round(s) only
			cuts := append([]int(nil), E.lastCuts...)
			for ci, c := range cuts {
				if ci == len(cuts)-1 || c >= len(ground)-len(facts) {
					break
				}
				part := append(append([]*Term(nil), ground[:c]...), facts...)
				j.q.ScriptsPart = append(j.q.ScriptsPart, Script(part, goal, false, nil))
			}
			j.q.ScriptG = Script(ground, goal, false, nil)
			if E.debugQ {
				E.debugN++
				os.WriteFile(fmt.Sprintf("/tmp/govc_debug_ground_%d.smt2", E.debugN), []byte(j.q.ScriptG), 0o644)
			}
		}
		j.q.Script = Script(append(ground, quant...), goal, true, j.q.Model)
		if d := os.Getenv("GOVC_DUMP_DIR"); d != "" {
			dumpN++
			os.WriteFile(fmt.Sprintf("%s/q%05d.smt2", d, dumpN), []byte("; "+j.o.Name+" "+j.q.Path+"\n"+j.q.Script), 0o644)
		}
		if scriptHash != nil {
			scriptHash.Write([]byte(j.o.Name))
			scriptHash.Write([]byte(j.q.Script))
		}
		j.q.Hyps = nil // free memory
	}
	var wg sync.WaitGroup
	sem := make(chan struct{}, par)
	for _, j := range jobs {
		wg.Add(1)
		sem <- struct{}{}
		go func(j job) {
			defer wg.Done()
			defer func() { <-sem }()
			if len(j.q.Script) > maxScript {
				j.q.Result, j.q.Solver, j.q.Output = "too-large", "none", fmt.Sprintf("script of %d bytes exceeds the cap; split the function or contract", len(j.q.Script))
				return
			}
			g := j.q.ScriptG
			if len(g) > maxScript {
				g = ""
			}
			for _, ps := range j.q.ScriptsPart {
				if len(ps) > maxScript {
					continue
				}
				t0 := time.Now()
				if r, _ := runSolver("z3-new", ps, 3); r == "unsat" {
					j.q.Result, j.q.Solver, j.q.Seconds = "unsat", "z3-new", time.Since(t0).Seconds()
					j.q.Script, j.q.ScriptG, j.q.ScriptsPart = "", "", nil
					return
				}
			}
			j.q.ScriptsPart = nil
			j.q.Result, j.q.Solver, j.q.Output, j.q.Seconds = race(j.q.Script, g, E.timeoutS)
			j.q.ScriptG = ""
			if j.q.Result == "sat" && j.o.Kind != "cover" && len(j.q.Names) > 0 {
				// look for a small model (short slices) that can be replayed
				var extra strings.Builder
				for i, n := range j.q.Names {
					if strings.HasSuffix(n, ".len") && i < len(j.q.Model) {
						lim := replayMaxLen
						if j.q.Model[i].S.K == SInt {
							fmt.Fprintf(&extra, "(assert (<= %s %d))\n", j.q.Model[i].String(), lim)
						}
					}
				}
				if extra.Len() > 0 {
					small := strings.Replace(j.q.Script, "(check-sat)", extra.String()+"(check-sat)", 1)
					if r, out := runSolver("z3-new", small, 10); r == "sat" {
						j.q.Output = out
					}
				}
			}
			if j.q.Result == "unsat" || (j.o.Kind == "cover" && j.q.Result == "sat") {
				j.q.Output = ""
				if !E.keepScripts {
					j.q.Script = ""
				}
			}
		}(j)
	}
	wg.Wait()
	// second chance under less contention: queries that ran out of time are
	// retried a few at a time with a three times longer limit (a loaded machine
	// must not turn a proof into an alarm)
	var retry []job
	for _, j := range jobs {
		if j.o.Kind != "cover" && (j.q.Result == "timeout" || j.q.Result == "unknown") && j.q.Script != "" && len(j.q.Script) <= maxScript {
			retry = append(retry, j)
		}
	}
	if len(retry) > 0 && len(retry) <= 24 {
		sem2 := make(chan struct{}, 3)
		for _, j := range retry {
			wg.Add(1)
			sem2 <- struct{}{}
			go func(j job) {
				defer wg.Done()
				defer func() { <-sem2 }()
				r, sv, out, secs := race(j.q.Script, "", E.timeoutS*3)
				if r == "unsat" || r == "sat" {
					j.q.Result, j.q.Solver, j.q.Output = r, sv+" (retry)", out
					j.q.Seconds += secs
					if r == "unsat" {
						j.q.Output = ""
					}
				}
			}(j)
		}
		wg.Wait()
	}
}

func dumpScript(dir, name, script string) string {
	os.MkdirAll(dir, 0o755)
	p := dir + "/" + sanitize(name) + ".smt2"
	os.WriteFile(p, []byte(script), 0o644)
	return p
}
