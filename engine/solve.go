package main

// Query preparation (skolemisation, hand instantiation of quantified
// hypotheses) and solver racing.

import (
	"bytes"
	"context"
	"fmt"
	"os"
	"os/exec"
	"sort"
	"strings"
	"sync"
	"time"
)

// skolemize removes universal quantifiers in positive positions of a goal.
func (E *Engine) skolemize(g *Term) *Term {
	switch g.Op {
	case "forall":
		m := map[string]*Term{}
		for _, b := range g.Bound {
			m[b.Name] = E.fresh("sk."+strings.SplitN(b.Name, "!", 2)[0], b.S)
		}
		return E.skolemize(Subst(g.Args[0], m))
	case "and":
		out := make([]*Term, len(g.Args))
		for i, a := range g.Args {
			out[i] = E.skolemize(a)
		}
		return And(out...)
	case "=>":
		return Implies(E.negSkolem(g.Args[0]), E.skolemize(g.Args[1]))
	case "not":
		return Not(E.negSkolem(g.Args[0]))
	case "or":
		out := make([]*Term, len(g.Args))
		for i, a := range g.Args {
			out[i] = E.skolemize(a)
		}
		return Or(out...)
	}
	return g
}

// negSkolem: existentials in negative positions.
func (E *Engine) negSkolem(g *Term) *Term {
	switch g.Op {
	case "exists":
		m := map[string]*Term{}
		for _, b := range g.Bound {
			m[b.Name] = E.fresh("sk."+strings.SplitN(b.Name, "!", 2)[0], b.S)
		}
		return E.negSkolem(Subst(g.Args[0], m))
	case "and":
		out := make([]*Term, len(g.Args))
		for i, a := range g.Args {
			out[i] = E.negSkolem(a)
		}
		return And(out...)
	case "not":
		return Not(E.skolemize(g.Args[0]))
	}
	return g
}

type qpattern struct {
	binder string
	offset *Term // nil: index is the binder itself
	neg    bool  // index is offset - binder
}

func collectPatterns(t *Term, binders map[string]bool, out *[]qpattern) {
	check := func(ix *Term) {
		if ix.S.K != SInt {
			return
		}
		if ix.Op == "var" && binders[ix.Name] {
			*out = append(*out, qpattern{binder: ix.Name})
			return
		}
		if ix.Op == "+" && len(ix.Args) == 2 {
			a, b := ix.Args[0], ix.Args[1]
			if b.Op == "var" && binders[b.Name] && !mentions(a, binders) {
				*out = append(*out, qpattern{binder: b.Name, offset: a})
			} else if a.Op == "var" && binders[a.Name] && !mentions(b, binders) {
				*out = append(*out, qpattern{binder: a.Name, offset: b})
			}
		}
		if ix.Op == "-" && len(ix.Args) == 2 {
			a, b := ix.Args[0], ix.Args[1]
			if a.Op == "var" && binders[a.Name] && !mentions(b, binders) {
				*out = append(*out, qpattern{binder: a.Name, offset: Neg(b)})
			}
		}
	}
	switch t.Op {
	case "select", "store":
		check(t.Args[1])
	case "mod", "div":
		check(t.Args[0])
	case "app":
		for _, a := range t.Args {
			check(a)
		}
	}
	for _, a := range t.Args {
		collectPatterns(a, binders, out)
	}
}

func mentions(t *Term, names map[string]bool) bool {
	if t.Op == "var" {
		return names[t.Name]
	}
	for _, a := range t.Args {
		if mentions(a, names) {
			return true
		}
	}
	return false
}

func flattenAnd(ts []*Term) []*Term {
	var out []*Term
	for _, t := range ts {
		if t.Op == "and" {
			out = append(out, flattenAnd(t.Args)...)
		} else if !t.IsTrue() {
			out = append(out, t)
		}
	}
	return out
}

const maxInst = 400

// prepare: skolemise the goal, instantiate quantified hypotheses at the index
// terms that occur; the quantified originals are kept as well.
func (E *Engine) prepare(hyps []*Term, goal *Term) ([]*Term, *Term) {
	hyps = flattenAnd(hyps)
	if goal != nil {
		goal = E.skolemize(goal)
	}
	var ground, quant []*Term
	for _, h := range hyps {
		h = E.negSkolemTop(h)
		if h.Op == "forall" {
			quant = append(quant, h)
		} else if h.Op == "=>" && h.Args[1].Op == "forall" {
			// guard ==> forall: instantiate under the guard
			q := h.Args[1]
			quant = append(quant, &Term{Op: "forall", S: BoolS, Bound: q.Bound, Args: []*Term{Implies(h.Args[0], q.Args[0])}})
		} else {
			ground = append(ground, h)
		}
	}
	if len(quant) == 0 {
		return append(ground, E.recAxioms...), goal
	}
	out := append([]*Term(nil), ground...)
	out = append(out, E.recAxioms...)
	for round := 0; round < 2; round++ {
		cands := map[string]*Term{}
		b := map[string]int{}
		for _, h := range out {
			indexTerms(h, cands, b)
		}
		if goal != nil {
			indexTerms(goal, cands, b)
		}
		keys := make([]string, 0, len(cands))
		for k := range cands {
			keys = append(keys, k)
		}
		sort.Strings(keys)
		if len(keys) > 60 {
			// prefer small terms
			sort.Slice(keys, func(i, j int) bool {
				if len(keys[i]) != len(keys[j]) {
					return len(keys[i]) < len(keys[j])
				}
				return keys[i] < keys[j]
			})
			keys = keys[:60]
		}
		seen := map[string]bool{}
		for _, h := range out {
			seen[h.String()] = true
		}
		added := 0
		for _, q := range quant {
			binders := map[string]bool{}
			for _, bv := range q.Bound {
				binders[bv.Name] = true
			}
			var pats []qpattern
			collectPatterns(q.Args[0], binders, &pats)
			// candidate values per binder
			per := map[string]map[string]*Term{}
			for _, bv := range q.Bound {
				per[bv.Name] = map[string]*Term{}
			}
			for _, p := range pats {
				for _, k := range keys {
					t := cands[k]
					v := t
					if p.offset != nil {
						v = Sub(t, p.offset)
					}
					per[p.binder][v.String()] = v
				}
			}
			// cartesian product (bounded)
			names := make([]string, 0, len(q.Bound))
			for _, bv := range q.Bound {
				if bv.S.K != SInt {
					names = nil
					break
				}
				names = append(names, bv.Name)
			}
			if names == nil {
				continue
			}
			var rec func(i int, m map[string]*Term)
			count := 0
			rec = func(i int, m map[string]*Term) {
				if count > maxInst/len(quant)+8 {
					return
				}
				if i == len(names) {
					inst := Subst(q.Args[0], m)
					if inst.IsTrue() {
						return
					}
					s := inst.String()
					if !seen[s] {
						seen[s] = true
						out = append(out, inst)
						added++
						count++
					}
					return
				}
				vals := per[names[i]]
				vk := make([]string, 0, len(vals))
				for k := range vals {
					vk = append(vk, k)
				}
				sort.Slice(vk, func(a, b int) bool {
					if len(vk[a]) != len(vk[b]) {
						return len(vk[a]) < len(vk[b])
					}
					return vk[a] < vk[b]
				})
				for _, k := range vk {
					m[names[i]] = vals[k]
					rec(i+1, m)
				}
				delete(m, names[i])
			}
			rec(0, map[string]*Term{})
		}
		if added == 0 {
			break
		}
	}
	out = append(out, quant...)
	return out, goal
}

func (E *Engine) negSkolemTop(h *Term) *Term {
	if h.Op == "exists" {
		return E.negSkolem(h)
	}
	return h
}

// ---------------------------------------------------------------- solvers

type solverSpec struct {
	name string
	args func(timeoutS int) []string
}

var solvers = []solverSpec{
	{"z3-new", func(t int) []string { return []string{"z3-new", fmt.Sprintf("-T:%d", t), "-in"} }},
	{"z3", func(t int) []string { return []string{"z3", fmt.Sprintf("-T:%d", t), "-in"} }},
	{"cvc5", func(t int) []string {
		return []string{"cvc5", "--lang=smt2", fmt.Sprintf("--tlimit=%d", t*1000), "--produce-models", "--arrays-exp"}
	}},
}

func solverByName(n string) solverSpec {
	for _, s := range solvers {
		if s.name == n {
			return s
		}
	}
	return solvers[0]
}

func runSolverCtx(ctx context.Context, name, script string, timeoutS int) (string, string) {
	sp := solverByName(name)
	args := sp.args(timeoutS)
	cctx, cancel := context.WithTimeout(ctx, time.Duration(timeoutS+2)*time.Second)
	defer cancel()
	cmd := exec.CommandContext(cctx, args[0], args[1:]...)
	cmd.Stdin = strings.NewReader(script)
	var out bytes.Buffer
	cmd.Stdout = &out
	cmd.Stderr = &out
	cmd.Run()
	text := out.String()
	first := strings.TrimSpace(strings.SplitN(text, "\n", 2)[0])
	switch first {
	case "sat", "unsat":
		return first, text
	case "unknown":
		return "unknown", text
	case "timeout":
		return "timeout", text
	}
	if cctx.Err() != nil {
		return "timeout", text
	}
	if strings.Contains(text, "error") || strings.Contains(text, "Error") {
		return "error", text
	}
	return "unknown", text
}

func runSolver(name, script string, timeoutS int) (string, string) {
	return runSolverCtx(context.Background(), name, script, timeoutS)
}

// race: z3-new first with a short limit, then all three in parallel.
func race(script string, timeoutS int) (res, solver, output string, secs float64) {
	t0 := time.Now()
	quick := 2
	if timeoutS < quick {
		quick = timeoutS
	}
	r, out := runSolver("z3-new", script, quick)
	if r == "sat" || r == "unsat" {
		return r, "z3-new", out, time.Since(t0).Seconds()
	}
	ctx, cancel := context.WithCancel(context.Background())
	defer cancel()
	type ans struct{ r, s, o string }
	ch := make(chan ans, len(solvers))
	for _, sp := range solvers {
		go func(n string) {
			r, o := runSolverCtx(ctx, n, script, timeoutS)
			ch <- ans{r, n, o}
		}(sp.name)
	}
	var last ans
	outs := ""
	for i := 0; i < len(solvers); i++ {
		a := <-ch
		if a.r == "sat" || a.r == "unsat" {
			return a.r, a.s, a.o, time.Since(t0).Seconds()
		}
		last = a
		outs += fmt.Sprintf("[%s] %s\n", a.s, strings.TrimSpace(firstLines(a.o, 3)))
	}
	return last.r, "none", outs, time.Since(t0).Seconds()
}

func firstLines(s string, n int) string {
	l := strings.SplitN(s, "\n", n+1)
	if len(l) > n {
		l = l[:n]
	}
	return strings.Join(l, "\n")
}

const maxScript = 1500 * 1024

// Discharge runs every query of every obligation.
func (E *Engine) Discharge(par int) {
	type job struct {
		o *Oblig
		q *Query
	}
	var jobs []job
	for _, n := range E.order {
		o := E.obligs[n]
		for _, q := range o.Queries {
			if q.Result != "" {
				continue
			}
			jobs = append(jobs, job{o, q})
		}
	}
	// scripts are produced sequentially (fresh-name counter), solved in parallel
	strUsed := func(ts []*Term, g *Term) map[string]bool {
		used := map[string]bool{}
		var walk func(t *Term)
		walk = func(t *Term) {
			if t.Op == "const" && t.S.K == SInt && t.C.Sign() < 0 {
				if _, ok := E.strByRef[t.String()]; ok {
					used[t.String()] = true
				}
			}
			for _, a := range t.Args {
				walk(a)
			}
		}
		for _, t := range ts {
			walk(t)
		}
		if g != nil {
			walk(g)
		}
		return used
	}
	for _, j := range jobs {
		hyps, goal := E.prepare(j.q.Hyps, j.q.Goal)
		x := &Exec{E: E, tc: &TypeCtx{}}
		x.tc.bv = j.o.BV
		hyps = append(hyps, E.strConstFacts(x, strUsed(hyps, goal))...)
		j.q.Script = Script(hyps, goal, true, j.q.Model)
		j.q.Hyps = nil // free memory
	}
	var wg sync.WaitGroup
	sem := make(chan struct{}, par)
	for _, j := range jobs {
		wg.Add(1)
		sem <- struct{}{}
		go func(j job) {
			defer wg.Done()
			defer func() { <-sem }()
			if len(j.q.Script) > maxScript {
				j.q.Result, j.q.Solver, j.q.Output = "too-large", "none", fmt.Sprintf("script of %d bytes exceeds the cap; split the function or contract", len(j.q.Script))
				return
			}
			j.q.Result, j.q.Solver, j.q.Output, j.q.Seconds = race(j.q.Script, E.timeoutS)
			if j.q.Result == "unsat" || (j.o.Kind == "cover" && j.q.Result == "sat") {
				j.q.Output = ""
				if !E.keepScripts {
					j.q.Script = ""
				}
			}
		}(j)
	}
	wg.Wait()
}

func dumpScript(dir, name, script string) string {
	os.MkdirAll(dir, 0o755)
	p := dir + "/" + sanitize(name) + ".smt2"
	os.WriteFile(p, []byte(script), 0o644)
	return p
}
