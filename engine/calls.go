package main

// Calls: builtins, modular calls against contracts, inlining, defers, and the
// small set of intrinsics (sync, channels).

import (
	"fmt"
	"go/token"
	"go/types"
	"os"
	"strings"

	"golang.org/x/tools/go/ssa"
)

const repoMod = "github.com/alibaba/RedisShake"

func (x *Exec) call(st *State, fr *Frame, site ssa.Instruction, c *ssa.CallCommon, k func(*State, Val)) {
	args := make([]Val, len(c.Args))
	for i, a := range c.Args {
		args[i] = x.reg(st, fr, a)
	}
	where := x.pos(site.Pos())
	x.curSite = site
	if c.IsInvoke() {
		recv := x.reg(st, fr, c.Value)
		x.invoke(st, fr, site, c, recv, args, where, k)
		return
	}
	switch f := c.Value.(type) {
	case *ssa.Builtin:
		x.builtin(st, fr, site, f, c, args, where, k)
		return
	case *ssa.Function:
		x.callFunc(st, fr, site, f, nil, args, where, k)
		return
	case *ssa.MakeClosure:
		fv := x.reg(st, fr, f)
		x.callFunc(st, fr, site, f.Fn.(*ssa.Function), fv.Bindings, args, where, k)
		return
	}
	fv := x.reg(st, fr, c.Value)
	if fn, ok := fv.Fn.(*ssa.Function); ok {
		x.callFunc(st, fr, site, fn, fv.Bindings, args, where, k)
		return
	}
	if len(fv.L) == 1 && fv.L[0].IsConst() {
		// a function value whose identity is a known constant (stored in and reloaded from memory)
		if fn := x.E.funcByRef(fv.L[0]); fn != nil && len(fn.FreeVars) == 0 {
			x.callFunc(st, fr, site, fn, nil, args, where, k)
			return
		}
	}
	// a local variable that only ever holds one function literal of this function: the call is
	// a call of that literal, with the variables it captures
	if fn, mc := singleClosureSite(c.Value); fn != nil && (x.dry || mc != nil) {
		if x.dry {
			if x.E.contractFor(fn) != nil {
				x.callFunc(st, fr, site, fn, nil, args, where, k)
				return
			}
		} else {
			var binds []Val
			ok := true
			for _, b := range mc.Bindings {
				if _, isAl := b.(*ssa.Alloc); !isAl {
					ok = false
					break
				}
				if _, has := st.regs[b]; !has {
					ok = false
					break
				}
				binds = append(binds, x.reg(st, fr, b))
			}
			if ok {
				x.callFunc(st, fr, site, fn, binds, args, where, k)
				return
			}
		}
	}
	// a call through a parameter the contract declares a pure function (flag funcparam):
	// the result is the (uninterpreted) application of that function value, nothing is written
	if x.fc != nil && x.fc.Flags["funcparam"] != "" && len(fv.L) == 1 && x.isOwnFuncParam(fr, fv) {
		k(st, x.fnApply(fv, c.Signature(), args))
		return
	}
	// a function stored in a struct field may have a contract of its own:
	// "func field T.f" (assumed for every function ever stored there)
	if fv.Src != nil && fv.Src.contT != nil {
		if n, ok := fv.Src.contT.(*types.Named); ok {
			fname := fieldNameAt(x.tc, fv.Src.contT, fv.Src.Off)
			key := "field " + n.Obj().Name() + "." + fname
			pkg := ""
			if n.Obj().Pkg() != nil {
				pkg = n.Obj().Pkg().Path()
			}
			if fc, ok := x.E.contracts[pkg+"::"+key]; ok {
				sig := c.Signature()
				var names []string
				for i := 0; i < sig.Params().Len(); i++ {
					nm := sig.Params().At(i).Name()
					if nm == "" || nm == "_" {
						nm = fmt.Sprintf("p%d", i)
					}
					names = append(names, nm)
				}
				x.atCallAsserts(st, fr, key, names, args, where)
				x.modularCall(st, fr, site, fc, nil, sig, names, args, where, k)
				return
			}
		}
	}
	// dynamic call of an unknown function value
	x.unknownCall(st, fr, "dynamic call "+c.Value.Name(), c.Signature(), where, k)
}

func fullName(fn *ssa.Function) string { return fn.RelString(nil) }

func (x *Exec) callFunc(st *State, fr *Frame, site ssa.Instruction, fn *ssa.Function, binds []Val, args []Val, where string, k func(*State, Val)) {
	name := fullName(fn)
	x.atCallAsserts(st, fr, name, fnParamNames(fn), args, where)
	k = x.withGhostSets(fr, name, fnParamNames(fn), args, fn.Signature.Results(), k)
	if x.intrinsic(st, fr, site, fn, name, args, where, k) {
		return
	}
	fc := x.E.contractFor(fn)
	if fc != nil && !fc.Inline {
		x.callBinds = binds
		x.modularCall(st, fr, site, fc, fn, fn.Signature, fnParamNames(fn), args, where, k)
		return
	}
	if fn.Blocks != nil && x.mayInline(fr, fn, fc) {
		x.inlineCall(st, fr, fn, fc, binds, args, k)
		return
	}
	x.unknownCall(st, fr, "call of "+name+" (no contract)", fn.Signature, where, k)
}

func fnParamNames(fn *ssa.Function) []string {
	var out []string
	for _, p := range fn.Params {
		out = append(out, p.Name())
	}
	return out
}

func (x *Exec) mayInline(fr *Frame, fn *ssa.Function, fc *FuncContract) bool {
	if fr.depth > 8 {
		return false
	}
	for f := fr; f != nil; f = f.parent {
		if f.fn == fn {
			return false
		}
	}
	if fc != nil && fc.Inline {
		return true
	}
	p := fnPkgPath(fn)
	if strings.HasPrefix(p, repoMod) {
		return true
	}
	for f := fr; f != nil; f = f.parent {
		if f.fc != nil {
			for _, n := range f.fc.InlineAll {
				if n == fullName(fn) || n == "*" {
					return true
				}
			}
		}
	}
	return false
}

func (x *Exec) newFrame(parent *Frame, fn *ssa.Function, fc *FuncContract, ret func(*State, []Val)) *Frame {
	d := 0
	if parent != nil {
		d = parent.depth + 1
	}
	return &Frame{fn: fn, fc: fc, parent: parent, ret: ret, depth: d, loops: x.E.loopsOf(fn), callOrd: map[string]int{}}
}

func (x *Exec) inlineCall(st *State, fr *Frame, fn *ssa.Function, fc *FuncContract, binds []Val, args []Val, k func(*State, Val)) {
	nf := x.newFrame(fr, fn, fc, nil)
	nf.freeVars = binds
	nf.ret = func(st2 *State, res []Val) {
		delete(st2.defers, nf.depth)
		k(st2, x.tupleOf(fn.Signature.Results(), res))
	}
	nf.params = map[string]Val{}
	for i, p := range fn.Params {
		st.regs[p] = x.coerce(args[i], p.Type())
		nf.params[p.Name()] = st.regs[p]
	}
	nf.entry = st.clone()
	if len(fn.Blocks) == 0 {
		x.abort(st, "inline of body-less "+fn.Name())
		return
	}
	x.run(st, nf, fn.Blocks[0], 0, nil)
}

func (x *Exec) tupleOf(res *types.Tuple, vals []Val) Val {
	switch len(vals) {
	case 0:
		return Val{}
	case 1:
		return vals[0]
	}
	out := Val{T: res}
	for _, v := range vals {
		if v.A != nil {
			panic("structured address in tuple result")
		}
		out.L = append(out.L, v.L...)
	}
	return out
}

func (x *Exec) unknownCall(st *State, fr *Frame, what string, sig *types.Signature, where string, k func(*State, Val)) {
	x.E.noteUnmodelled(what + " @ " + where)
	if os.Getenv("GOVC_DEBUG_DRY") != "" {
		fmt.Fprintf(os.Stderr, "[unknown] dry=%v %s @ %s\n", x.dry, what, where)
	}
	if x.dry {
		if os.Getenv("GOVC_DEBUG_DRY") != "" {
			fmt.Fprintf(os.Stderr, "[dry-all] unknown call %s @ %s\n", what, where)
		}
		x.dryEff.all = true
	}
	// havoc the whole heap: nothing is known afterwards
	for _, key := range sortedKeysT(st.heap) {
		a := st.heap[key]
		if strings.HasPrefix(key, "S|") {
			continue
		}
		st.heap[key] = x.E.fresh("uk"+sanitize(key), a.S)
	}
	for key := range st.ghost {
		if strings.HasPrefix(key, "held!") || strings.HasPrefix(key, "dec!") {
			continue
		}
		if _, declared := x.E.ghostDecls[strings.TrimPrefix(key, "ghost!")]; declared && strings.HasPrefix(key, "ghost!") {
			continue // specification variables change only by `set` and `modifies`
		}
		delete(st.ghost, key)
	}
	nb := x.E.fresh("brk", IntS)
	st.assume(Le(st.brk, nb))
	st.brk = nb
	k(st, x.freshVal("ret", sig.Results(), st))
}

// ---------------------------------------------------------------- modular call

type callBinding struct {
	names []string
	args  []Val
}

func (x *Exec) modularCall(st *State, fr *Frame, site ssa.Instruction, fc *FuncContract, fn *ssa.Function, sig *types.Signature, pnames []string, args []Val, where string, k func(*State, Val)) {
	x.E.noteContractUse(fc)
	cname := fc.Name
	env := &Env{x: x, st: st, old: st, vars: map[string]Val{}, pkgPath: x.E.pkgOfContract(fc), fc: fc}
	// a closure called against its contract: the names of its captured variables denote the caller's cells
	var cfr *Frame
	if fn != nil && len(fn.FreeVars) > 0 && len(x.callBinds) == len(fn.FreeVars) {
		cfr = &Frame{fn: fn, fc: fc, freeVars: x.callBinds}
		env.fr = cfr
	}
	x.callBinds = nil
	for i, n := range pnames {
		if i < len(args) {
			env.vars[n] = args[i]
		}
	}
	for old, idx := range x.E.paramAliases(fn) {
		if _, taken := env.vars[old]; !taken && idx < len(args) {
			env.vars[old] = args[idx]
		}
	}
	if fp := fc.Flags["funcparam"]; fp != "" {
		for _, n := range strings.Fields(fp) {
			for i, pn := range pnames {
				if pn == n && i < len(args) {
					x.funcParamArg(st, fr, args[i], shortName(cname), where)
				}
			}
		}
	}
	x.bindGhost(env, fc, st)
	for _, r := range fc.Requires {
		g := x.evalBool(env, r.E)
		x.oblige(st, "pre", shortName(cname)+":"+labelOr(r, "requires"), g, r.Src, where)
		st.assume(g)
	}
	if fc.Diverges {
		return
	}
	pre := st.clone()
	post := st
	nb := x.E.fresh("brk", IntS)
	post.assume(Le(post.brk, nb))
	post.brk = nb
	menv := &Env{x: x, st: pre, old: pre, vars: env.vars, pkgPath: env.pkgPath, fc: fc, fr: cfr}
	for _, m := range fc.Modifies {
		x.applyModifies(post, pre, fr, menv, m, where)
	}
	var res Val
	results := sig.Results()
	res = x.freshVal("r."+sanitize(shortName(cname)), results, post)
	if results.Len() == 1 {
		res.T = results.At(0).Type()
	}
	penv := &Env{x: x, st: post, old: pre, vars: map[string]Val{}, pkgPath: env.pkgPath, fc: fc, ghostScope: map[string]*Term{}, fr: cfr}
	for n, v := range env.vars {
		penv.vars[n] = v
	}
	// a callee that is a monitor operation: atlock() denotes the protected
	// state at acquisition, i.e. the pre-state with the protected state havoced
	// under the monitor invariant
	if fn != nil && len(args) > 0 && args[0].A == nil && args[0].T != nil {
		if pt, ok := args[0].T.Underlying().(*types.Pointer); ok {
			if mi := x.monitorOf(pt.Elem(), ""); mi != nil {
				mid := pre.clone()
				sd := x.dry
				x.dry = false
				x.monitorHavoc(mid, mi, args[0].L[0])
				x.dry = sd
				inv := x.monitorInvariant(mid, mi, args[0].L[0])
				post.assume(inv)
				for _, c := range mid.pc[len(pre.pc):] {
					post.assume(c)
				}
				penv.atlock = mid
			}
		}
	}
	x.bindResults(penv, results, res)
	for _, e := range fc.Ensures {
		post.assume(x.evalBool(penv, e.E))
	}
	for _, e := range fc.PostAssumes {
		post.assume(x.evalBool(penv, e.E))
		x.E.noteAssumption(fmt.Sprintf("ASSUMED (unchecked) about the result of %s: %s: %s", shortName(cname), e.Label, e.Src))
	}
	post.callLog = append(post.callLog, shortName(cname))
	k(post, res)
}

func shortName(n string) string {
	if i := strings.LastIndex(n, "/"); i >= 0 {
		// keep a leading "(*" if present
		pre := ""
		if strings.HasPrefix(n, "(*") {
			pre = "(*"
		} else if strings.HasPrefix(n, "(") {
			pre = "("
		}
		return pre + n[i+1:]
	}
	return n
}

func (x *Exec) bindResults(env *Env, results *types.Tuple, res Val) {
	off := 0
	for i := 0; i < results.Len(); i++ {
		rt := results.At(i).Type()
		n := x.tc.nleaves(rt)
		var v Val
		if results.Len() == 1 {
			v = Val{T: rt, L: res.L, A: res.A, Fn: res.Fn, Bindings: res.Bindings}
		} else {
			v = Val{T: rt, L: res.L[off : off+n]}
		}
		off += n
		if nm := results.At(i).Name(); nm != "" && nm != "_" {
			env.vars[nm] = v
		}
		env.vars[fmt.Sprintf("result%d", i)] = v
		if results.Len() == 1 {
			env.vars["result"] = v
		}
	}
}

func (x *Exec) bindGhost(env *Env, fc *FuncContract, st *State) {
	for _, g := range fc.Ghost {
		key := "ghostvar!" + fc.Name + "!" + g.Name
		t, ok := st.ghost[key]
		if !ok {
			t = Var("ghost."+sanitize(fc.Name)+"."+g.Name, sortOfSpecType(g.Type))
			st.ghost[key] = t
		}
		env.vars[g.Name] = mathVal(t)
	}
}

func sortOfSpecType(t string) *Sort {
	switch t {
	case "bool":
		return BoolS
	case "seq":
		return ArrS(IntS, IntS)
	}
	return IntS
}

// applyModifies havocs one modifies item in post (locations evaluated in pre).
func (x *Exec) applyModifies(post, pre *State, fr *Frame, env *Env, m *SExpr, where string) {
	switch m.K {
	case "star":
		// s[*]: elements [off, off+len) of the backing store of s
		sv := x.asSlice(x.eval(env, m.X))
		sl, ok := sv.T.Underlying().(*types.Slice)
		if !ok {
			x.abort(post, "modifies x[*] on non-slice")
			return
		}
		x.frameCheckRange(post, fr, typeKey(sl.Elem()), sv, where)
		for i, l := range x.tc.leaves(sl.Elem()) {
			key := hkey("M", typeKey(sl.Elem()), i)
			arr := x.heapArr(post, key, x.memSort(l))
			oldInner := Select(arr, sv.L[0])
			na := x.E.fresh("mod", oldInner.S)
			post.heap[key] = Store(arr, sv.L[0], na)
			if !x.tc.bv {
				kk := x.E.fresh("k", IntS)
				post.assume(Forall([]*Term{kk}, Implies(Or(Lt(kk, sv.L[1]), Ge(kk, Add(sv.L[1], sv.L[2]))), Eq(Select(na, kk), Select(oldInner, kk)))))
			}
			x.effHeap(key, sv.L[0])
		}
	case "sel":
		if m.Name == "*" {
			break
		}
		a := x.evalAddr(env, m)
		if a == nil {
			x.abort(post, "modifies: cannot resolve "+m.String())
			return
		}
		x.checkFrame(post, fr, a, where)
		nv := x.freshVal("mod."+m.Name, a.T, nil)
		x.storeAddrRaw(post, a, nv)
		loaded := x.loadAddr(post, a)
		post.assume(x.typeInv(loaded, post))
	case "ident":
		switch m.Name {
		case "everything":
			for _, key := range sortedKeysT(post.heap) {
				a := post.heap[key]
				if strings.HasPrefix(key, "S|") {
					continue
				}
				post.heap[key] = x.E.fresh("ev"+sanitize(key), a.S)
			}
			if x.dry {
				x.dryEff.all = true
			}
			return
		}
		// a global variable or ghost state name
		if a := x.evalAddr(env, m); a != nil {
			x.checkFrame(post, fr, a, where)
			x.storeAddrRaw(post, a, x.freshVal("mod."+m.Name, a.T, post))
			return
		}
		key := "ghost!" + m.Name
		if old, ok := post.ghost[key]; ok {
			post.ghost[key] = x.E.fresh("gh."+m.Name, old.S)
		} else if gs, ok := x.E.ghostDecls[m.Name]; ok {
			post.ghost[key] = x.E.fresh("gh."+m.Name, gs)
		} else {
			x.abort(post, "modifies: unknown ghost or global "+m.Name)
			return
		}
		if x.dry {
			x.dryEff.ghost[key] = true
		}
	case "call":
		// abs(p): abstract state of interface value / object p
		if m.X.K == "ident" && m.X.Name == "abs" && len(m.Args) == 1 {
			ov := x.eval(env, m.Args[0])
			x.modifyAbs(post, fr, ov, where, 0)
			return
		}
		// spare(s): the unused capacity [off+len, off+cap) behind slice s (what an in-place append writes)
		if m.X.K == "ident" && m.X.Name == "spare" && len(m.Args) == 1 {
			sv := x.asSlice(x.eval(env, m.Args[0]))
			sl, ok := sv.T.Underlying().(*types.Slice)
			if !ok {
				x.abort(post, "modifies spare(x) on non-slice")
				return
			}
			lo := Add(sv.L[1], sv.L[2])
			hi := Add(sv.L[1], sv.L[3])
			tail := Val{T: sv.T, L: []*Term{sv.L[0], lo, Sub(sv.L[3], sv.L[2]), Sub(sv.L[3], sv.L[2])}}
			x.frameCheckRange(post, fr, typeKey(sl.Elem()), tail, where)
			for i, l := range x.tc.leaves(sl.Elem()) {
				key := hkey("M", typeKey(sl.Elem()), i)
				arr := x.heapArr(post, key, x.memSort(l))
				oldInner := Select(arr, sv.L[0])
				na := x.E.fresh("mod", oldInner.S)
				post.heap[key] = Store(arr, sv.L[0], na)
				if !x.tc.bv {
					kk := x.E.fresh("k", IntS)
					post.assume(Forall([]*Term{kk}, Implies(Or(Lt(kk, lo), Ge(kk, hi)), Eq(Select(na, kk), Select(oldInner, kk)))))
				}
				x.effHeap(key, sv.L[0])
			}
			return
		}
		// deref(p): the variable the pointer p points to
		if m.X.K == "ident" && m.X.Name == "deref" && len(m.Args) == 1 {
			pv := x.eval(env, m.Args[0])
			a := x.ptrAddr(pv)
			if a == nil {
				x.abort(post, "modifies: cannot resolve "+m.String())
				return
			}
			x.checkFrame(post, fr, a, where)
			x.storeAddrRaw(post, a, x.freshVal("mod.deref", a.T, nil))
			post.assume(x.typeInv(x.loadAddr(post, a), post))
			return
		}
		x.abort(post, "modifies: unsupported item "+m.String())
	default:
		x.abort(post, "modifies: unsupported item "+m.String())
	}
}

// modifyAbs: the abstract state of a value changes.  For an object whose
// abstraction is defined by contract functions over its own fields (a known
// dynamic type with concrete pure methods) the footprint is the object itself
// plus, recursively, the abstract state of the objects its fields refer to.
func (x *Exec) modifyAbs(st *State, fr *Frame, ov Val, where string, depth int) {
	if ov.A != nil || len(ov.L) == 0 {
		return
	}
	ref := ov.L[len(ov.L)-1]
	var dt types.Type
	if ov.T != nil {
		if _, isI := ov.T.Underlying().(*types.Interface); isI {
			dt = x.E.dynamicType(ov)
		} else if _, isP := ov.T.Underlying().(*types.Pointer); isP {
			dt = ov.T
		}
	}
	if dt != nil && depth < 4 {
		if pt, ok := dt.Underlying().(*types.Pointer); ok {
			if st2, ok := pt.Elem().Underlying().(*types.Struct); ok && x.E.hasConcreteAbstraction(pt.Elem()) {
				foot := x.E.abstractionFields(pt.Elem())
				off := 0
				for i := 0; i < st2.NumFields(); i++ {
					f := st2.Field(i)
					n := x.tc.nleaves(f.Type())
					a := &Addr{K: AHeap, Key: typeKey(pt.Elem()), Ref: ref, Off: off, T: f.Type(), contT: pt.Elem()}
					off += n
					if !foot[f.Name()] {
						continue // the abstraction does not depend on this field
					}
					switch f.Type().Underlying().(type) {
					case *types.Interface, *types.Pointer:
						x.modifyAbs(st, fr, x.loadAddr(st, a), where, depth+1)
					case *types.Basic:
						// counters and flags that are part of the object's state
						x.checkFrame(st, fr, a, where)
						nv := x.freshVal("absfield."+f.Name(), f.Type(), nil)
						x.storeAddr(st, a, nv)
						st.assume(x.typeInv(x.loadAddr(st, a), st))
					}
				}
				return
			}
		}
	}
	x.checkFrameAbs(st, fr, ref, where)
	x.bumpVersion(st, ref)
}

// abstractionFields: the fields of a type that its contract functions read
// (the footprint of its abstraction).
func (E *Engine) abstractionFields(t types.Type) map[string]bool {
	out := map[string]bool{}
	n, ok := t.(*types.Named)
	if !ok {
		return out
	}
	var walk func(e *SExpr, recv string)
	walk = func(e *SExpr, recv string) {
		if e == nil {
			return
		}
		if e.K == "sel" && e.X != nil && e.X.K == "ident" && e.X.Name == recv {
			out[e.Name] = true
		}
		walk(e.X, recv)
		walk(e.Y, recv)
		walk(e.Z, recv)
		for _, a := range e.Args {
			walk(a, recv)
		}
	}
	for k, pf := range E.pureMeths {
		if strings.HasPrefix(k, n.Obj().Name()+".") && !pf.Abstract && !pf.Stable && pf.Recv != nil {
			walk(pf.Body, pf.Recv.Name)
		}
	}
	return out
}

func (E *Engine) hasConcreteAbstraction(t types.Type) bool {
	n, ok := t.(*types.Named)
	if !ok {
		return false
	}
	for k, pf := range E.pureMeths {
		if strings.HasPrefix(k, n.Obj().Name()+".") && !pf.Abstract && !pf.Stable {
			return true
		}
	}
	return false
}

func (x *Exec) bumpVersion(st *State, ref *Term) {
	key := "ghost!absver"
	arr, ok := st.ghost[key]
	if !ok {
		arr = Var("absver@0", ArrS(IntS, IntS))
	}
	st.ghost[key] = Store(arr, ref, x.E.fresh("ver", IntS))
	if x.dry {
		x.dryEff.ghost[key] = true
	}
}

func (x *Exec) absVersion(st *State, ref *Term) *Term {
	key := "ghost!absver"
	arr, ok := st.ghost[key]
	if !ok {
		arr = Var("absver@0", ArrS(IntS, IntS))
		st.ghost[key] = arr
	}
	return Select(arr, ref)
}

// storeAddrRaw stores without effect bookkeeping differences (shared with storeAddr).
func (x *Exec) storeAddrRaw(st *State, a *Addr, v Val) { x.storeAddr(st, a, v) }

// ---------------------------------------------------------------- interface method calls

func (x *Exec) invoke(st *State, fr *Frame, site ssa.Instruction, c *ssa.CallCommon, recv Val, args []Val, where string, k func(*State, Val)) {
	m := c.Method
	rt := c.Value.Type()
	tn := typeKey(rt)
	{
		isig := m.Type().(*types.Signature)
		pn := []string{"this"}
		for i := 0; i < isig.Params().Len(); i++ {
			n := isig.Params().At(i).Name()
			if n == "" || n == "_" {
				n = fmt.Sprintf("p%d", i)
			}
			pn = append(pn, n)
		}
		callee := "(" + tn + ")." + m.Name()
		all0 := append([]Val{recv}, args...)
		x.atCallAsserts(st, fr, callee, pn, all0, where)
		k = x.withGhostSets(fr, callee, pn, all0, isig.Results(), k)
	}
	// a method call through a nil interface value panics
	if len(recv.L) == 2 {
		x.checkNil(st, recv, where)
	}
	// devirtualisation: the dynamic type is known (the interface was made from a
	// concrete value in this function or an inlined caller)
	if dt := x.E.dynamicType(recv); dt != nil && isRefLike(dt) {
		if sel := x.E.L.Prog.MethodSets.MethodSet(dt).Lookup(m.Pkg(), m.Name()); sel != nil {
			if cf := x.E.L.Prog.MethodValue(sel); cf != nil {
				crecv := Val{T: dt, L: []*Term{recv.L[1]}, Fn: recv.Fn, Bindings: recv.Bindings}
				x.callFunc(st, fr, site, cf, nil, append([]Val{crecv}, args...), where, k)
				return
			}
		}
	}
	if x.invokeIntrinsic(st, fr, site, tn, m.Name(), recv, args, where, k) {
		return
	}
	fc := x.E.contractForMethod(rt, m)
	if fc == nil {
		x.unknownCall(st, fr, fmt.Sprintf("invoke (%s).%s (no contract)", tn, m.Name()), m.Type().(*types.Signature), where, k)
		return
	}
	sig := m.Type().(*types.Signature)
	names := []string{x.E.recvNameFor(fc)}
	for i := 0; i < sig.Params().Len(); i++ {
		n := sig.Params().At(i).Name()
		if n == "" || n == "_" {
			n = fmt.Sprintf("p%d", i)
		}
		names = append(names, n)
	}
	all := append([]Val{recv}, args...)
	x.modularCall(st, fr, site, fc, nil, sig, names, all, where, k)
}

// ---------------------------------------------------------------- defers

func (x *Exec) runDefers(st *State, fr *Frame, k func(*State)) {
	ds := st.defers[fr.depth]
	if len(ds) == 0 {
		k(st)
		return
	}
	d := ds[len(ds)-1]
	st.defers[fr.depth] = ds[:len(ds)-1]
	c := &d.call.Call
	where := x.pos(d.call.Pos())
	x.curSite = d.call
	next := func(st2 *State, _ Val) { x.runDefers(st2, fr, k) }
	if c.IsInvoke() {
		x.invoke(st, fr, d.call, c, d.fnv, d.args, where, next)
		return
	}
	switch f := c.Value.(type) {
	case *ssa.Builtin:
		x.builtin(st, fr, d.call, f, c, d.args, where, next)
	case *ssa.Function:
		x.callFunc(st, fr, d.call, f, nil, d.args, where, next)
	default:
		if fn, ok := d.fnv.Fn.(*ssa.Function); ok {
			x.callFunc(st, fr, d.call, fn, d.fnv.Bindings, d.args, where, next)
			return
		}
		x.unknownCall(st, fr, "deferred dynamic call", c.Signature(), where, next)
	}
}

// ---------------------------------------------------------------- builtins

func (x *Exec) builtin(st *State, fr *Frame, site ssa.Instruction, b *ssa.Builtin, c *ssa.CallCommon, args []Val, where string, k func(*State, Val)) {
	switch b.Name() {
	case "len":
		k(st, Val{T: types.Typ[types.Int], L: []*Term{x.lenOf(st, args[0])}})
	case "cap":
		a := args[0]
		switch a.T.Underlying().(type) {
		case *types.Slice:
			k(st, Val{T: types.Typ[types.Int], L: []*Term{a.L[3]}})
		default:
			k(st, Val{T: types.Typ[types.Int], L: []*Term{x.E.fresh("cap", x.idxConst(0).S)}})
		}
	case "copy":
		x.copyBuiltin(st, fr, args[0], args[1], where, k)
	case "append":
		x.appendBuiltin(st, fr, args[0], args[1], c.Args[1].Type(), where, k)
	case "panic":
		if x.frameRecovers(fr) {
			x.recoverPath(st, fr)
			return
		}
		x.oblige(st, "safe", "panic", FalseT, "explicit panic reachable", where)
	case "print", "println":
		k(st, Val{})
	case "recover":
		rt := b.Type().(*types.Signature).Results().At(0).Type()
		if x.ghostBool(st, "panicking").IsTrue() {
			// recovering from the panic that is unwinding: a non-nil value
			delete(st.ghost, "panicking")
			v := x.freshVal("recovered", rt, st)
			st.assume(Not(Eq(v.L[0], IntC(0))))
			k(st, v)
			return
		}
		k(st, Val{T: rt, L: []*Term{IntC(0), IntC(0)}})
	case "delete":
		x.mapDelete(st, fr, args[0], args[1])
		k(st, Val{})
	case "close":
		x.chanClose(st, fr, args[0], where)
		k(st, Val{})
	case "ssa:wrapnilchk":
		k(st, args[0])
	case "ssa:deferstack":
		k(st, Val{T: b.Type().(*types.Signature).Results(), L: []*Term{IntC(0)}})
	case "min", "max":
		a, bb := args[0].Term(), args[1].Term()
		var r *Term
		if b.Name() == "min" {
			r = Ite(Le(a, bb), a, bb)
		} else {
			r = Ite(Ge(a, bb), a, bb)
		}
		k(st, Val{T: args[0].T, L: []*Term{r}})
	default:
		x.abort(st, "builtin "+b.Name())
	}
}

func (x *Exec) lenOf(st *State, a Val) *Term {
	switch u := a.T.Underlying().(type) {
	case *types.Slice:
		return a.L[2]
	case *types.Basic:
		return a.L[2]
	case *types.Array:
		return x.idxConst(u.Len())
	case *types.Pointer:
		if at, ok := u.Elem().Underlying().(*types.Array); ok {
			return x.idxConst(at.Len())
		}
	case *types.Map:
		return x.mapLen(st, a)
	case *types.Chan:
		n := x.E.fresh("chanlen", IntS)
		st.assume(Le(IntC(0), n))
		return n
	}
	panic(fmt.Sprintf("len of %v", a.T))
}

func (x *Exec) copyBuiltin(st *State, fr *Frame, dst, src Val, where string, k func(*State, Val)) {
	n := x.E.fresh("copyn", x.idxConst(0).S)
	dl, sl := dst.L[2], src.L[2]
	if x.tc.bv {
		st.assume(Eq(n, Ite(BVCmp("bvule", dl, sl), dl, sl)))
	} else {
		st.assume(Eq(n, Ite(Le(dl, sl), dl, sl)))
	}
	el := dst.T.Underlying().(*types.Slice).Elem()
	x.frameCheckRange(st, fr, typeKey(el), dst, where)
	srcIsString := isString(src.T)
	for i, l := range x.tc.leaves(el) {
		key := hkey("M", typeKey(el), i)
		arr := x.heapArr(st, key, x.memSort(l))
		oldInner := Select(arr, dst.L[0])
		var srcInner *Term
		if srcIsString {
			srcInner = Select(x.strMem(st), src.L[0])
		} else {
			srcInner = Select(arr, src.L[0])
		}
		na := x.E.fresh("copied", oldInner.S)
		st.heap[key] = Store(arr, dst.L[0], na)
		x.effHeap(key, dst.L[0])
		kk := x.E.fresh("k", x.idxConst(0).S)
		if x.tc.bv {
			st.assume(Forall([]*Term{kk}, Implies(BVCmp("bvult", kk, n), Eq(Select(na, Add(dst.L[1], kk)), Select(srcInner, Add(src.L[1], kk))))))
			j := x.E.fresh("j", kk.S)
			st.assume(Forall([]*Term{j}, Implies(Or(BVCmp("bvult", j, dst.L[1]), BVCmp("bvuge", j, Add(dst.L[1], n))), Eq(Select(na, j), Select(oldInner, j)))))
		} else {
			st.assume(Forall([]*Term{kk}, Implies(And(Le(IntC(0), kk), Lt(kk, n)), Eq(Select(na, Add(dst.L[1], kk)), Select(srcInner, Add(src.L[1], kk))))))
			j := x.E.fresh("j", IntS)
			st.assume(Forall([]*Term{j}, Implies(Or(Lt(j, dst.L[1]), Ge(j, Add(dst.L[1], n))), Eq(Select(na, j), Select(oldInner, j)))))
		}
	}
	k(st, Val{T: types.Typ[types.Int], L: []*Term{n}})
}

func (x *Exec) appendBuiltin(st *State, fr *Frame, s, t Val, tT types.Type, where string, k func(*State, Val)) {
	sl := s.T.Underlying().(*types.Slice)
	el := sl.Elem()
	tl := t.L[2]
	tIsString := isString(t.T)
	newLen := Add(s.L[2], tl)
	// the appended elements, read before any write
	srcOf := func(st *State, i int, l leafInfo) *Term {
		key := hkey("M", typeKey(el), i)
		arr := x.heapArr(st, key, x.memSort(l))
		if tIsString {
			return Select(x.strMem(st), t.L[0])
		}
		return Select(arr, t.L[0])
	}
	fits := Le(newLen, s.L[3])
	if x.tc.bv {
		fits = FalseT // bit-vector mode functions do not append
	}
	// case A: the capacity suffices: the elements are written in place, behind
	// the current length, into the existing backing store (visible to every
	// slice sharing it)
	if !fits.IsFalse() && !x.dry {
		stA := st
		if !fits.IsTrue() {
			stA = st.clone()
			stA.assume(fits)
			stA.trace = append(stA.trace, "append:inplace")
		}
		tail := Val{T: s.T, L: []*Term{s.L[0], Add(s.L[1], s.L[2]), tl, Sub(s.L[3], s.L[2])}}
		x.frameCheckRange(stA, fr, typeKey(el), tail, where)
		for i, l := range x.tc.leaves(el) {
			key := hkey("M", typeKey(el), i)
			arr := x.heapArr(stA, key, x.memSort(l))
			oldInner := Select(arr, s.L[0])
			srcInner := srcOf(stA, i, l)
			if tl.IsConst() && tl.C.Int64() <= 8 {
				ni := oldInner
				for j := int64(0); j < tl.C.Int64(); j++ {
					ni = Store(ni, Add(Add(s.L[1], s.L[2]), IntC(j)), Select(srcInner, Add(t.L[1], IntC(j))))
				}
				stA.heap[key] = Store(arr, s.L[0], ni)
			} else {
				na := x.E.fresh("app", oldInner.S)
				stA.heap[key] = Store(arr, s.L[0], na)
				j := x.E.fresh("j", IntS)
				stA.assume(Forall([]*Term{j}, Implies(And(Le(IntC(0), j), Lt(j, tl)), Eq(Select(na, Add(Add(s.L[1], s.L[2]), j)), Select(srcInner, Add(t.L[1], j))))))
				kk := x.E.fresh("k", IntS)
				stA.assume(Forall([]*Term{kk}, Implies(Or(Lt(kk, Add(s.L[1], s.L[2])), Ge(kk, Add(Add(s.L[1], s.L[2]), tl))), Eq(Select(na, kk), Select(oldInner, kk)))))
			}
			x.effHeap(key, s.L[0])
		}
		k(stA, Val{T: s.T, L: []*Term{s.L[0], s.L[1], newLen, s.L[3]}})
		if fits.IsTrue() {
			return
		}
		st.assume(Not(fits))
		st.trace = append(st.trace, "append:realloc")
	}
	// case B: reallocation into a fresh backing store holding old ++ new
	ref := x.allocRef(st)
	ncap := x.E.fresh("appcap", IntS)
	st.assume(And(Le(newLen, ncap), Le(ncap, BigC(Pow2(48)))))
	res := Val{T: s.T, L: []*Term{ref, x.idxConst(0), newLen, ncap}}
	for i, l := range x.tc.leaves(el) {
		key := hkey("M", typeKey(el), i)
		arr := x.heapArr(st, key, x.memSort(l))
		oldInner := Select(arr, s.L[0])
		srcInner := srcOf(st, i, l)
		na := x.E.fresh("app", oldInner.S)
		st.heap[key] = Store(arr, ref, na)
		kk := x.E.fresh("k", IntS)
		st.assume(Forall([]*Term{kk}, Implies(And(Le(IntC(0), kk), Lt(kk, s.L[2])), Eq(Select(na, kk), Select(oldInner, Add(s.L[1], kk))))))
		if tl.IsConst() && tl.C.Int64() <= 8 {
			for j := int64(0); j < tl.C.Int64(); j++ {
				st.assume(Eq(Select(na, Add(s.L[2], IntC(j))), Select(srcInner, Add(t.L[1], IntC(j)))))
			}
		} else {
			j := x.E.fresh("j", IntS)
			st.assume(Forall([]*Term{j}, Implies(And(Le(IntC(0), j), Lt(j, tl)), Eq(Select(na, Add(s.L[2], j)), Select(srcInner, Add(t.L[1], j))))))
		}
	}
	k(st, res)
}

// ---------------------------------------------------------------- frame checking

// checkFrame: a write to an object that existed at function entry must be
// covered by the modifies clause of the function under verification.
func (x *Exec) checkFrame(st *State, fr *Frame, a *Addr, where string) {
	if x.dry || x.fc == nil || !x.fc.HasMod {
		return
	}
	top := fr
	for top.parent != nil {
		top = top.parent
	}
	switch a.K {
	case ALocal:
		return
	case AHeap, AGlobal:
		var fresh *Term = FalseT
		if a.K == AHeap {
			fresh = Ge(a.Ref, Var("brk@0", IntS))
		}
		var alts []*Term
		alts = append(alts, fresh)
		env := &Env{x: x, st: top.entry, old: top.entry, vars: top.params, pkgPath: fnPkgPath(x.fn), fc: x.fc}
		for _, m := range x.fc.Modifies {
			if m.K == "ident" && m.Name == "everything" {
				return
			}
			if m.K == "call" && m.X.K == "ident" && m.X.Name == "deref" && len(m.Args) == 1 && a.K == AHeap {
				// deref(p): the whole variable p pointed to at entry
				func() {
					defer func() {
						if r := recover(); r != nil {
							if _, ok := r.(evalError); !ok {
								panic(r)
							}
						}
					}()
					pv := x.eval(env, m.Args[0])
					if pa := x.ptrAddr(pv); pa != nil && pa.K == AHeap && pa.Key == a.Key {
						alts = append(alts, Eq(a.Ref, pa.Ref))
					}
				}()
				continue
			}
			if m.K != "sel" && m.K != "ident" {
				continue
			}
			ma := x.evalAddr(env, m)
			if ma == nil || ma.K != a.K || ma.Key != a.Key {
				continue
			}
			n := x.tc.nleaves(ma.T)
			if a.Off < ma.Off || a.Off+x.tc.nleaves(a.T) > ma.Off+n {
				continue
			}
			if a.K == AGlobal {
				return
			}
			alts = append(alts, Eq(a.Ref, ma.Ref))
		}
		x.oblige(st, "frame", "modifies", Or(alts...), "write is covered by the modifies clause", where)
	case AElem:
		x.frameCheckElem(st, top, a.Key, a.Ref, a.Idx, a.Idx, where)
	}
}

// checkFrameAbs: the abstract state of an object that existed at entry may only
// change if the function's modifies clause lists abs(<that object>).
func (x *Exec) checkFrameAbs(st *State, fr *Frame, ref *Term, where string) {
	if x.dry || x.fc == nil || !x.fc.HasMod {
		return
	}
	top := fr
	for top.parent != nil {
		top = top.parent
	}
	alts := []*Term{Ge(ref, Var("brk@0", IntS))}
	env := &Env{x: x, st: top.entry, old: top.entry, vars: top.params, pkgPath: fnPkgPath(x.fn), fc: x.fc}
	for _, m := range x.fc.Modifies {
		if m.K == "ident" && m.Name == "everything" {
			return
		}
		if m.K == "call" && m.X.K == "ident" && m.X.Name == "abs" && len(m.Args) == 1 {
			func() {
				defer func() {
					if r := recover(); r != nil {
						if _, ok := r.(evalError); !ok {
							panic(r)
						}
					}
				}()
				ov := x.eval(env, m.Args[0])
				alts = append(alts, Eq(ref, ov.L[len(ov.L)-1]))
			}()
		}
	}
	x.oblige(st, "frame", "modifies-abs", Or(alts...), "abstract state written is fresh or covered by modifies abs(...)", where)
}

// asSlice views an array value (a reference to its backing store) as the slice of all its elements.
func (x *Exec) asSlice(v Val) Val {
	if v.T == nil {
		return v
	}
	if at, ok := v.T.Underlying().(*types.Array); ok && len(v.L) == 1 {
		n := x.idxConst(at.Len())
		return Val{T: types.NewSlice(at.Elem()), L: []*Term{v.L[0], x.idxConst(0), n, n}}
	}
	return v
}

func (x *Exec) frameCheckRange(st *State, fr *Frame, elemKey string, s Val, where string) {
	if x.dry || x.fc == nil || !x.fc.HasMod {
		return
	}
	top := fr
	for top.parent != nil {
		top = top.parent
	}
	if x.tc.bv {
		return
	}
	// empty ranges write nothing
	x.frameCheckElemCond(st, top, elemKey, s.L[0], s.L[1], Sub(Add(s.L[1], s.L[2]), IntC(1)), Gt(s.L[2], IntC(0)), where)
}

func (x *Exec) frameCheckElem(st *State, top *Frame, elemKey string, ref, lo, hi *Term, where string) {
	x.frameCheckElemCond(st, top, elemKey, ref, lo, hi, TrueT, where)
}

func (x *Exec) frameCheckElemCond(st *State, top *Frame, elemKey string, ref, lo, hi, cond *Term, where string) {
	if x.tc.bv {
		return
	}
	alts := []*Term{Ge(ref, Var("brk@0", IntS))}
	env := &Env{x: x, st: top.entry, old: top.entry, vars: top.params, pkgPath: fnPkgPath(x.fn), fc: x.fc}
	for _, m := range x.fc.Modifies {
		if m.K == "ident" && m.Name == "everything" {
			return
		}
		if m.K == "call" && m.X.K == "ident" && m.X.Name == "spare" && len(m.Args) == 1 {
			sv := x.asSlice(x.eval(env, m.Args[0]))
			sl, ok := sv.T.Underlying().(*types.Slice)
			if !ok || typeKey(sl.Elem()) != elemKey {
				continue
			}
			alts = append(alts, And(Eq(ref, sv.L[0]), Le(Add(sv.L[1], sv.L[2]), lo), Lt(hi, Add(sv.L[1], sv.L[3]))))
			continue
		}
		if m.K != "star" {
			continue
		}
		sv := x.asSlice(x.eval(env, m.X))
		sl, ok := sv.T.Underlying().(*types.Slice)
		if !ok || typeKey(sl.Elem()) != elemKey {
			continue
		}
		alts = append(alts, And(Eq(ref, sv.L[0]), Le(sv.L[1], lo), Lt(hi, Add(sv.L[1], sv.L[2]))))
	}
	x.oblige(st, "frame", "modifies", Implies(cond, Or(alts...)), "element write is covered by the modifies clause", where)
}

// singleClosureSite: like singleClosureOf, also returning the MakeClosure instruction (nil for a plain function).
func singleClosureSite(v ssa.Value) (*ssa.Function, *ssa.MakeClosure) {
	u, ok := v.(*ssa.UnOp)
	if !ok {
		return nil, nil
	}
	al, ok := u.X.(*ssa.Alloc)
	if !ok || al.Referrers() == nil {
		return nil, nil
	}
	var fn *ssa.Function
	var site *ssa.MakeClosure
	for _, r := range *al.Referrers() {
		if s, ok := r.(*ssa.Store); ok && s.Addr == al {
			if fn != nil {
				return nil, nil
			}
			switch v := s.Val.(type) {
			case *ssa.MakeClosure:
				fn, _ = v.Fn.(*ssa.Function)
				site = v
			case *ssa.Function:
				fn = v
			default:
				return nil, nil
			}
		}
	}
	return fn, site
}

// singleClosureOf: v is a load of a local variable whose only store is one closure.
func singleClosureOf(v ssa.Value) *ssa.Function {
	u, ok := v.(*ssa.UnOp)
	if !ok {
		return nil
	}
	al, ok := u.X.(*ssa.Alloc)
	if !ok || al.Referrers() == nil {
		return nil
	}
	var fn *ssa.Function
	for _, r := range *al.Referrers() {
		if s, ok := r.(*ssa.Store); ok && s.Addr == al {
			if fn != nil {
				return nil
			}
			switch v := s.Val.(type) {
			case *ssa.MakeClosure:
				fn, _ = v.Fn.(*ssa.Function)
			case *ssa.Function:
				fn = v
			default:
				return nil
			}
		}
	}
	return fn
}

// ---------------------------------------------------------------- function-valued parameters

// isOwnFuncParam: fv is (a copy of) a parameter of the function under verification that its contract
// declares a pure function value ("flag funcparam NAME...").
func (x *Exec) isOwnFuncParam(fr *Frame, fv Val) bool {
	if x.fc == nil || len(fv.L) != 1 {
		return false
	}
	top := fr
	for top.parent != nil {
		top = top.parent
	}
	for _, n := range strings.Fields(x.fc.Flags["funcparam"]) {
		if pv, ok := top.params[n]; ok && len(pv.L) == 1 && pv.L[0].String() == fv.L[0].String() {
			return true
		}
	}
	return false
}

// fnApply: the application of a pure function value: an uninterpreted function of the value's identity and the arguments.
func (x *Exec) fnApply(fv Val, sig *types.Signature, args []Val) Val {
	if sig.Results().Len() != 1 {
		x.evalFail("apply: a pure function value has exactly one result")
	}
	rt := sig.Results().At(0).Type()
	ls := x.tc.leaves(rt)
	if len(ls) != 1 {
		x.evalFail("apply: the result of a pure function value is a scalar")
	}
	targs := []*Term{fv.L[0]}
	for _, a := range args {
		targs = append(targs, a.L...)
	}
	return Val{T: rt, L: []*Term{App("fnapp."+sanitize(sig.String()), ls[0].S, targs...)}}
}

// funcParamArg: a function value handed to a parameter that the callee's contract declares pure must be
// (a) such a parameter of the caller itself, or (b) a function literal under a contract flagged purefn
// (verified: modifies nothing; a body without calls or memory access other than its immutable captured
// variables); in case (b) the literal's postconditions define the application for every argument.
func (x *Exec) funcParamArg(st *State, fr *Frame, arg Val, callee, where string) {
	if x.dry {
		return
	}
	if x.isOwnFuncParam(fr, arg) {
		return
	}
	fn, _ := arg.Fn.(*ssa.Function)
	var cfc *FuncContract
	if fn != nil {
		cfc = x.E.contractFor(fn)
	}
	why := ""
	switch {
	case fn == nil:
		why = "the function value is not statically known"
	case cfc == nil:
		why = "the function literal has no contract"
	default:
		if _, ok := cfc.Flags["purefn"]; !ok {
			why = "the contract of the function literal is not flagged purefn"
		} else if !cfc.HasMod || len(cfc.Modifies) != 0 {
			why = "a purefn contract says modifies nothing"
		} else if len(cfc.Requires) != 0 {
			why = "a purefn contract has no precondition"
		} else if r := simplePureLiteral(fn); r != "" {
			why = r
		} else if len(arg.Bindings) != len(fn.FreeVars) {
			why = "captured variables unknown"
		}
	}
	if why != "" {
		x.oblige(st, "pre", callee+":funcparam-pure", FalseT, "function argument is a verified pure function ("+why+")", where)
		return
	}
	x.E.noteContractUse(cfc)
	env := &Env{x: x, st: st, old: st, vars: map[string]Val{}, pkgPath: x.E.pkgOfContract(cfc), fc: cfc,
		fr: &Frame{fn: fn, fc: cfc, freeVars: arg.Bindings}}
	var qv []*Term
	var fargs []Val
	var inv []*Term
	for _, p := range fn.Params {
		v := x.freshVal("fa."+p.Name(), p.Type(), nil)
		inv = append(inv, x.typeInv(v, st))
		qv = append(qv, v.L...)
		fargs = append(fargs, v)
		env.vars[p.Name()] = v
	}
	res := x.fnApply(arg, fn.Signature, fargs)
	x.bindResults(env, fn.Signature.Results(), res)
	var body []*Term
	for _, e := range cfc.Ensures {
		body = append(body, x.evalBool(env, e.E))
	}
	ax := Implies(And(inv...), And(body...))
	if len(qv) > 0 {
		ax = Forall(qv, ax)
	}
	st.assume(ax)
}

// simplePureLiteral: "" when fn is a function literal whose result depends only on its parameters and on
// captured variables that never change: no calls, no memory access besides its own locals and the captured
// cells, which it only reads and which the enclosing function assigns exactly once (a spilled parameter).
func simplePureLiteral(fn *ssa.Function) string {
	own := map[ssa.Value]bool{}
	for _, fv := range fn.FreeVars {
		own[fv] = true
	}
	for _, b := range fn.Blocks {
		for _, in := range b.Instrs {
			if al, ok := in.(*ssa.Alloc); ok && !al.Heap {
				own[al] = true
			}
		}
	}
	for _, b := range fn.Blocks {
		for _, in := range b.Instrs {
			switch v := in.(type) {
			case *ssa.Alloc:
				if v.Heap {
					return "the literal allocates"
				}
			case *ssa.UnOp:
				if v.Op == token.MUL && !own[v.X] {
					return "the literal reads memory other than its locals and captured variables"
				}
				if v.Op == token.ARROW {
					return "the literal receives from a channel"
				}
			case *ssa.Store:
				if al, ok := v.Addr.(*ssa.Alloc); !ok || !own[al] {
					return "the literal writes memory other than its locals"
				}
			case *ssa.BinOp, *ssa.If, *ssa.Jump, *ssa.Return, *ssa.Phi, *ssa.Convert, *ssa.ChangeType, *ssa.DebugRef, *ssa.RunDefers:
				// (RunDefers without any Defer instruction - those are rejected below - runs nothing)
			case *ssa.Call:
				if b, ok := v.Call.Value.(*ssa.Builtin); !ok || b.Name() != "ssa:deferstack" {
					return "the literal calls a function"
				}
			default:
				return fmt.Sprintf("the literal contains a %T", in)
			}
		}
	}
	parent := fn.Parent()
	if parent == nil {
		if len(fn.FreeVars) == 0 {
			return ""
		}
		return "captured variables without an enclosing function"
	}
	var site *ssa.MakeClosure
	for _, b := range parent.Blocks {
		for _, in := range b.Instrs {
			if mc, ok := in.(*ssa.MakeClosure); ok && mc.Fn == fn {
				if site != nil {
					return "the literal is instantiated more than once"
				}
				site = mc
			}
		}
	}
	if site == nil && len(fn.FreeVars) > 0 {
		return "instantiation site not found"
	}
	if site != nil {
		for _, bnd := range site.Bindings {
			al, ok := bnd.(*ssa.Alloc)
			if !ok || al.Referrers() == nil {
				return "a captured variable is not a plain local"
			}
			stores := 0
			for _, r := range *al.Referrers() {
				switch u := r.(type) {
				case *ssa.Store:
					if u.Addr != al {
						return "the address of a captured variable escapes"
					}
					if _, isP := u.Val.(*ssa.Parameter); !isP {
						return "a captured variable is assigned after entry"
					}
					stores++
				case *ssa.UnOp:
					if u.Op != token.MUL {
						return "a captured variable is used other than by value"
					}
				case *ssa.MakeClosure:
					if u.Fn != fn {
						return "a captured variable is shared with another literal"
					}
				case *ssa.DebugRef:
				default:
					return "the address of a captured variable escapes"
				}
			}
			if stores != 1 {
				return "a captured variable is assigned more than once"
			}
		}
	}
	return ""
}
