package main

// Result classification, known findings, VIOLATION lines, evidence files.

import (
	"encoding/json"
	"fmt"
	"os"
	"os/exec"
	"path/filepath"
	"sort"
	"strconv"
	"strings"
	"sync"
	"time"
)

type Report struct {
	Cfg        *PropConfig
	Tier       string
	T0         time.Time
	E          *Engine
	GenSeconds float64
	fatals     []string
}

func (r *Report) fatal(kind, msg string) {
	r.fatals = append(r.fatals, kind+": "+msg)
}

func (o *Oblig) status() string {
	if o.Kind == "cover" {
		// vacuity guard: the entry (and at least one return path) must be satisfiable
		anySat, allUnsat := false, len(o.Queries) > 0
		for _, q := range o.Queries {
			if q.Result == "sat" {
				anySat = true
			}
			if q.Result != "unsat" {
				allUnsat = false
			}
		}
		if allUnsat && !anySat && !o.Partial {
			return "VACUOUS"
		}
		return "ok"
	}
	for _, q := range o.Queries {
		if q.Result != "unsat" {
			return "FAILED"
		}
	}
	return "ok"
}

func (o *Oblig) firstFail() *Query {
	for _, q := range o.Queries {
		if o.Kind == "cover" {
			if q.Result == "unsat" {
				return q
			}
			continue
		}
		if q.Result != "unsat" {
			return q
		}
	}
	return nil
}

type KnownFinding struct {
	Property   string `json:"property"`
	Obligation string `json:"obligation"`
	What       string `json:"what"`
	Witness    string `json:"witness,omitempty"`
}

type KnownFile struct {
	Findings []KnownFinding `json:"findings"`
	Fixed    []string       `json:"fixed"`
}

func loadKnown() *KnownFile {
	kf := &KnownFile{}
	data, err := os.ReadFile(filepath.Join(verifRoot, "known_findings.json"))
	if err == nil {
		json.Unmarshal(data, kf)
	}
	return kf
}

func seedOf() int {
	if v := os.Getenv("VERIF_SEED"); v != "" {
		if n, err := strconv.Atoi(v); err == nil {
			return n
		}
	}
	return 0
}

func (r *Report) finish() int {
	if r.E != nil && os.Getenv("GOVC_WRITE_HINTS") != "" && os.Getenv("GOVC_REPO") == "" {
		r.E.writeHints()
	}
	id := r.Cfg.ID
	known := loadKnown()
	knownBy := map[string]KnownFinding{}
	for _, k := range known.Findings {
		if k.Property == id {
			knownBy[k.Obligation] = k
		}
	}
	exit := 0
	violations := 0
	var lines []string
	ev := map[string]interface{}{}
	cov := map[string]interface{}{}
	replayRoot := filepath.Join(verifRoot, "replays", id)
	scratch := os.Getenv("GOVC_REPO") != "" // self-test run on a scratch copy: nothing is written under /verif
	if scratch {
		replayRoot = filepath.Join(os.TempDir(), "govc-selftest-replays", id)
	}
	os.RemoveAll(replayRoot)
	defer func() {
		if scratch {
			os.RemoveAll(replayRoot)
		}
	}()

	violate := func(name string, info map[string]interface{}, hasInput bool) {
		violations++
		exit = 1
		dir := filepath.Join(replayRoot, sanitize(name))
		os.MkdirAll(dir, 0o755)
		info["obligation"] = name
		info["property"] = id
		b, _ := json.MarshalIndent(info, "", " ")
		p := filepath.Join(dir, "replay.json")
		os.WriteFile(p, b, 0o644)
		suffix := ""
		if !hasInput {
			suffix = " no-failing-input-found"
		}
		lines = append(lines, fmt.Sprintf("VIOLATION property=%s replay=%s obligation=%s%s", id, p, name, suffix))
	}

	for _, f := range r.fatals {
		violate("engine#"+strings.SplitN(f, ":", 2)[0], map[string]interface{}{"reason": f}, false)
	}
	var total, discharged int
	perKind := map[string]int{}
	perSolver := map[string]int{}
	var solverSum, solverMax float64
	var samples []interface{}
	var failedNames []string
	var knownSeen []string
	var coverInconclusive []string
	var slow []string
	nq := 0
	if r.E != nil {
		E := r.E
		for _, o := range E.orphans {
			E.markUndecided(o, "the function named by the contract is not in the code")
		}
		for _, c := range E.cfgErrors {
			violate("contract-config#"+sanitizeLabel(c), map[string]interface{}{"reason": "contract-config-error", "detail": c}, false)
		}
		// unused loop specs / at-call assertions are orphans too
		for _, cf := range E.files {
			for _, fc := range cf.Funcs {
				if !fc.attached || fc.Trusted {
					continue
				}
				if !E.wasVerified(fc) {
					continue
				}
				if _, und := E.undecided[E.oblPrefix(fc)]; und {
					continue
				}
				for ord := range fc.Loops {
					if !E.loopUsed[fmt.Sprintf("%s#%d", fc.Name, ord)] {
						violate(fmt.Sprintf("contract-target-missing#%s:loop%d", fc.Name, ord), map[string]interface{}{"reason": "contract-target-missing", "detail": fmt.Sprintf("%s: loop %d of %s not found (or unreachable)", fc.File, ord, fc.Name)}, false)
					}
				}
				for i, a := range fc.Asserts {
					if !E.assertUsed[fmt.Sprintf("%s#%d", fc.Name, i)] {
						violate(fmt.Sprintf("contract-target-missing#%s:call%d.%s", fc.Name, a.Ordinal, a.Callee), map[string]interface{}{"reason": "contract-target-missing", "detail": fmt.Sprintf("%s: call %d of %s in %s not found (or unreachable)", fc.File, a.Ordinal, a.Callee, fc.Name)}, false)
					}
				}
			}
		}
		for _, n := range E.order {
			o := E.obligs[n]
			if i := strings.Index(n, "#"); i > 0 {
				if _, und := E.undecided[n[:i]]; und {
					continue // nothing is reported about a function whose contract no longer attaches
				}
			}
			for _, q := range o.Queries {
				nq++
				if q.Seconds > 1.0 {
					slow = append(slow, fmt.Sprintf("%.1fs %s [%s] %s", q.Seconds, n, q.Solver, q.Path))
				}
				perSolver[q.Solver]++
				solverSum += q.Seconds
				if q.Seconds > solverMax {
					solverMax = q.Seconds
				}
			}
			if o.Kind == "cover" {
				inconclusive := false
				for _, q := range o.Queries {
					if q.Result != "sat" && q.Result != "unsat" {
						inconclusive = true
					}
				}
				if o.status() == "VACUOUS" {
					violate(n, map[string]interface{}{"reason": "vacuous contract: precondition/invariant unsatisfiable", "src": o.Src}, false)
				} else if inconclusive {
					coverInconclusive = append(coverInconclusive, n)
				}
				continue
			}
			total++
			perKind[o.Kind]++
			if o.status() == "ok" {
				discharged++
				if len(samples) < 3 && len(o.Queries) > 0 && o.Queries[0].Solver != "simplifier" {
					samples = append(samples, map[string]interface{}{"obligation": n, "clause": o.Src, "where": o.Where, "queries": len(o.Queries), "path": o.Queries[0].Path, "solver": o.Queries[0].Solver})
				}
				if k, ok := knownBy[n]; ok {
					lines = append(lines, fmt.Sprintf("NOTE: known finding no longer reproduces (obligation now discharges): property=%s %s — %s", id, n, k.What))
				}
				continue
			}
			fq := o.firstFail()
			if k, ok := knownBy[n]; ok {
				knownSeen = append(knownSeen, n)
				lines = append(lines, fmt.Sprintf("KNOWN-FINDING: property=%s %s — %s", id, n, k.What))
				total--
				perKind[o.Kind]--
				continue
			}
			failedNames = append(failedNames, n)
			info := map[string]interface{}{
				"function": o.Fn, "kind": o.Kind, "label": o.Label, "clause": o.Src, "where": o.Where,
				"solver_result": fq.Result, "solver_output": truncate(fq.Output, 4000), "path": fq.Path,
			}
			hasInput := false
			if fq.Script != "" {
				dir := filepath.Join(replayRoot, sanitize(n))
				info["smt2"] = dumpScript(dir, "query", fq.Script)
			}
			if fq.Result == "sat" {
				model := parseModel(fq.Output)
				info["model"] = model
				if rr := r.E.tryReplay(o, fq, model, filepath.Join(replayRoot, sanitize(n))); rr != nil {
					info["replay"] = rr
					if rr.Confirmed {
						hasInput = true
					}
				}
			}
			violate(n, info, hasInput)
		}
	}
	// evidence
	trusted := append([]string{}, r.Cfg.Trusted...)
	if r.E != nil {
		for n := range r.E.usedTrusted {
			trusted = append(trusted, "assumed contract: "+n)
		}
		sort.Strings(trusted)
	}
	cov["obligations"] = total
	cov["discharged"] = discharged
	cov["checker_cmd"] = fmt.Sprintf("/verif/check %s --tier %s  (govc verify: go/ssa weakest-precondition VCs, discharged by z3 4.8.12 / z3 5.1.0 / cvc5 1.0 raced)", id, r.Tier)
	cov["trusted_base"] = trusted
	cov["queries"] = nq
	cov["obligations_by_kind"] = perKind
	cov["queries_by_backend"] = perSolver
	cov["solver_seconds_sum"] = round3(solverSum)
	cov["solver_seconds_max"] = round3(solverMax)
	cov["generation_seconds"] = round3(r.GenSeconds)
	if len(samples) == 0 {
		samples = append(samples, "no obligation generated")
	}
	cov["samples"] = samples
	cov["failed_obligations"] = failedNames
	var undecided []string
	if r.E != nil {
		for f, why := range r.E.undecided {
			undecided = append(undecided, f+": "+why)
		}
		sort.Strings(undecided)
	}
	if r.E != nil {
		var sc []string
		for k, why := range r.E.staleClauses {
			if i := strings.Index(k, "#"); i > 0 {
				if _, und := r.E.undecided[k[:i]]; und {
					continue
				}
			}
			sc = append(sc, k+": "+why)
		}
		sort.Strings(sc)
		for _, u := range sc {
			undecided = append(undecided, u+" (this clause was not checked; the function's other obligations are reported as usual)")
		}
	}
	cov["undecided_functions"] = undecided
	for _, u := range undecided {
		lines = append(lines, fmt.Sprintf("UNDECIDED: property=%s %s — the contract no longer attaches here; nothing is claimed about it on this tree (not counted)", id, u))
	}
	cov["known_findings_reproduced"] = knownSeen
	cov["not_decided_clauses"] = r.Cfg.NotDecided
	cov["bounded_side_checks"] = r.Cfg.Bounded
	cov["cover_checks_inconclusive"] = coverInconclusive
	cov["slow_queries_over_1s"] = slow
	var assumptions []string
	if r.E != nil {
		cov["functions_under_contract"] = r.E.verified
		cov["extraction_drops"] = r.E.L.Drops
		var um []string
		for u := range r.E.unmodelled {
			um = append(um, u)
		}
		sort.Strings(um)
		cov["unmodelled_calls_havoced"] = um
		for a := range r.E.assumptions {
			assumptions = append(assumptions, a)
		}
		var lem []string
		for l := range r.E.usedLemmas {
			lem = append(lem, l)
		}
		sort.Strings(lem)
		cov["lemmas_used"] = lem
		cov["extra"] = r.E.extraEvidence
	}
	assumptions = append(assumptions, "go/ssa (x/tools v0.29.0) is taken as the meaning of the source; the govc VC generator and the SMT solvers are trusted",
		"fixed-width integers are encoded as SMT Int with explicit wrap-around (no mathematical-integer assumption) unless the function is verified in bit-vector mode")
	sort.Strings(assumptions)
	ev["property_id"] = id
	ev["tier"] = r.Tier
	ev["seed"] = seedOf()
	ev["level"] = "proof"
	ev["coverage"] = cov
	ev["assumptions"] = assumptions
	ev["wall_s"] = round3(time.Since(r.T0).Seconds())
	ev["violations"] = violations
	if scratch {
		for _, l := range lines {
			fmt.Println(l)
		}
		fmt.Printf("property %s tier %s: %d obligations, %d violations (scratch copy %s)\n", id, r.Tier, len(r.E.order), violations, os.Getenv("GOVC_REPO"))
		return exit
	}
	if r.Tier == "thorough" && len(r.fatals) == 0 {
		cov["must_fail_selftest"] = r.selfTest(id)
	}
	os.MkdirAll(filepath.Join(verifRoot, "evidence"), 0o755)
	b, _ := json.MarshalIndent(ev, "", " ")
	os.WriteFile(filepath.Join(verifRoot, "evidence", id+".json"), b, 0o644)

	for _, l := range lines {
		fmt.Println(l)
	}
	fmt.Printf("property %s tier %s: %d obligations, %d discharged, %d violations, %d known findings, %d queries, %.1fs\n",
		id, r.Tier, total, discharged, violations, len(knownSeen), nq, time.Since(r.T0).Seconds())
	if total == 0 && exit == 0 {
		fmt.Printf("VIOLATION property=%s replay=%s no-failing-input-found\n", id, filepath.Join(verifRoot, "evidence", id+".json"))
		fmt.Println("no obligations were generated (vacuity guard)")
		return 1
	}
	return exit
}

func round3(f float64) float64 { return float64(int(f*1000)) / 1000 }

func truncate(s string, n int) string {
	if len(s) > n {
		return s[:n] + "…"
	}
	return s
}

func (E *Engine) wasVerified(fc *FuncContract) bool {
	for _, v := range E.verified {
		if v.Contract == fmt.Sprintf("%s:%d", fc.File, fc.Line) {
			return true
		}
	}
	return false
}

// parseModel reads the (get-value ...) answer: ((term value) ...).
func parseModel(out string) map[string]string {
	m := map[string]string{}
	i := strings.Index(out, "((")
	if i < 0 {
		return m
	}
	s := out[i+1:]
	// split top-level pairs
	depth := 0
	start := -1
	for j := 0; j < len(s); j++ {
		switch s[j] {
		case '(':
			if depth == 0 {
				start = j
			}
			depth++
		case ')':
			depth--
			if depth == 0 && start >= 0 {
				pair := s[start+1 : j]
				// term then value: find split point at top level
				d := 0
				for k := 0; k < len(pair); k++ {
					if pair[k] == '(' {
						d++
					} else if pair[k] == ')' {
						d--
					} else if pair[k] == ' ' && d == 0 {
						m[strings.TrimSpace(pair[:k])] = strings.TrimSpace(pair[k+1:])
						break
					}
				}
				start = -1
			}
			if depth < 0 {
				return m
			}
		}
	}
	return m
}

// selfTest (thorough tier): every seeded change of /verif/seeded/<id>-*/patch.diff is applied to a scratch copy of
// /repo's working tree (outside /repo and /verif, removed afterwards) and the property's check is run on the copy: a
// seeded change must make at least one obligation fail.  This tests the machinery (vacuity), not the property: an
// undetected seed is reported in the evidence, never as a VIOLATION.
func (r *Report) selfTest(id string) []map[string]interface{} {
	var out []map[string]interface{}
	all, _ := filepath.Glob(filepath.Join(verifRoot, "seeded", "*", "patch.diff"))
	var seeds []string
	for _, patch := range all {
		dir := filepath.Dir(patch)
		name := filepath.Base(dir)
		props := []string{strings.SplitN(name, "-", 2)[0]}
		// <seed>/checks names the property checks a change falls under when that is not (only) its own
		if b, err := os.ReadFile(filepath.Join(dir, "checks")); err == nil {
			props = strings.Fields(string(b))
		}
		for _, p := range props {
			if p == id {
				seeds = append(seeds, patch)
			}
		}
	}
	sort.Strings(seeds)
	// three seeded copies are checked at a time (each check already runs its solvers in parallel)
	results := make([]map[string]interface{}, len(seeds))
	var wg sync.WaitGroup
	sem := make(chan struct{}, 3)
	for si, patch := range seeds {
		res := map[string]interface{}{"seed": filepath.Base(filepath.Dir(patch))}
		if b, err := os.ReadFile(filepath.Join(filepath.Dir(patch), "checks")); err == nil && len(strings.Fields(string(b))) > 1 {
			// the change is tried against every check named there; it need not fall under this one
			res["tried_against_checks"] = strings.Fields(string(b))
		}
		results[si] = res
		dir, err := os.MkdirTemp("", "govc-selftest-")
		if err != nil {
			res["error"] = err.Error()
			continue
		}
		wg.Add(1)
		sem <- struct{}{}
		go func(patch, dir string, res map[string]interface{}) {
			defer wg.Done()
			defer func() { <-sem }()
			defer os.RemoveAll(dir)
			if b, err := exec.Command("cp", "-a", filepath.Dir(repoSrc)+"/src", dir+"/src").CombinedOutput(); err != nil {
				res["error"] = "copy: " + string(b)
				return
			}
			cmd := exec.Command("patch", "-p1", "-s", "-d", dir, "-i", patch)
			if b, err := cmd.CombinedOutput(); err != nil {
				res["applies"] = false
				res["error"] = strings.TrimSpace(string(b))
				return
			}
			res["applies"] = true
			self, _ := os.Executable()
			c := exec.Command(self, "verify", "--property", id, "--tier", "quick")
			c.Env = append(os.Environ(), "GOVC_REPO="+dir+"/src")
			b, _ := c.CombinedOutput()
			var failed []string
			for _, l := range strings.Split(string(b), "\n") {
				if strings.HasPrefix(l, "VIOLATION") {
					if i := strings.Index(l, "obligation="); i >= 0 {
						failed = append(failed, strings.Fields(l[i+len("obligation="):])[0])
					}
				}
			}
			var und []string
			for _, l := range strings.Split(string(b), "\n") {
				if strings.HasPrefix(l, "UNDECIDED:") {
					und = append(und, strings.SplitN(strings.TrimPrefix(l, "UNDECIDED: "), " — ", 2)[0])
				}
			}
			if len(und) > 0 {
				res["undecided"] = und // (a contract that no longer attaches is not a detection)
			}
			res["detected"] = len(failed) > 0
			if len(failed) > 5 {
				failed = failed[:5]
			}
			res["failed_obligations"] = failed
		}(patch, dir, res)
	}
	wg.Wait()
	out = append(out, results...)
	return out
}

// oblPrefix: the prefix "<pkg>.<function>" of the obligations generated for the function a contract is attached to.
func (E *Engine) oblPrefix(fc *FuncContract) string {
	at := fmt.Sprintf("%s:%d", fc.File, fc.Line)
	for _, rep := range E.verified {
		if rep.Contract == at {
			return rep.Name
		}
	}
	return shortPkg(E.pkgOfContract(fc)) + "." + fc.Name
}
