package main

// Terms and sorts of the verification-condition language, a light simplifier
// and the SMT-LIB 2 printer.

import (
	"crypto/sha1"
	"fmt"
	"io"
	"math/big"
	"os"
	"sort"
	"strings"
)

type SortKind int

const (
	SInt SortKind = iota
	SBool
	SBV
	SArr
)

type Sort struct {
	K    SortKind
	W    int   // SBV width
	I, E *Sort // SArr index / element
}

var (
	IntS  = &Sort{K: SInt}
	BoolS = &Sort{K: SBool}
)

var bvSorts = map[int]*Sort{}

func BVS(w int) *Sort {
	if s, ok := bvSorts[w]; ok {
		return s
	}
	s := &Sort{K: SBV, W: w}
	bvSorts[w] = s
	return s
}

var arrSorts = map[string]*Sort{}

func ArrS(i, e *Sort) *Sort {
	k := i.String() + ">" + e.String()
	if s, ok := arrSorts[k]; ok {
		return s
	}
	s := &Sort{K: SArr, I: i, E: e}
	arrSorts[k] = s
	return s
}

func (s *Sort) String() string {
	switch s.K {
	case SInt:
		return "Int"
	case SBool:
		return "Bool"
	case SBV:
		return fmt.Sprintf("(_ BitVec %d)", s.W)
	case SArr:
		return "(Array " + s.I.String() + " " + s.E.String() + ")"
	}
	return "?"
}

func (s *Sort) Eq(o *Sort) bool { return s.String() == o.String() }

type Term struct {
	Op    string // "var","const","app", or an SMT operator name
	Args  []*Term
	S     *Sort
	Name  string   // var / uninterpreted function name
	C     *big.Int // constant value (Int or BV)
	Bound []*Term  // forall/exists binders (vars)

	hkey  string // structural key (lazily computed by the script printer; terms are immutable)
	hsize int    // node count, saturating
}

// ---------------------------------------------------------------- constructors

func Var(name string, s *Sort) *Term { return &Term{Op: "var", Name: name, S: s} }

func IntC(v int64) *Term { return &Term{Op: "const", S: IntS, C: big.NewInt(v)} }

func BigC(v *big.Int) *Term { return &Term{Op: "const", S: IntS, C: new(big.Int).Set(v)} }

func BVC(v *big.Int, w int) *Term {
	m := new(big.Int).Lsh(big.NewInt(1), uint(w))
	x := new(big.Int).Mod(v, m)
	return &Term{Op: "const", S: BVS(w), C: x}
}

var (
	TrueT  = &Term{Op: "true", S: BoolS}
	FalseT = &Term{Op: "false", S: BoolS}
)

func BoolC(b bool) *Term {
	if b {
		return TrueT
	}
	return FalseT
}

func (t *Term) IsConst() bool { return t.Op == "const" }
func (t *Term) IsTrue() bool  { return t.Op == "true" }
func (t *Term) IsFalse() bool { return t.Op == "false" }

func App(name string, s *Sort, args ...*Term) *Term {
	return &Term{Op: "app", Name: name, S: s, Args: args}
}

func mk(op string, s *Sort, args ...*Term) *Term { return &Term{Op: op, S: s, Args: args} }

func Pow2(n int) *big.Int { return new(big.Int).Lsh(big.NewInt(1), uint(n)) }

func Add(a, b *Term) *Term {
	if a.S.K == SBV {
		if a.IsConst() && b.IsConst() {
			return BVC(new(big.Int).Add(a.C, b.C), a.S.W)
		}
		return mk("bvadd", a.S, a, b)
	}
	if a.IsConst() && b.IsConst() {
		return BigC(new(big.Int).Add(a.C, b.C))
	}
	if a.IsConst() && a.C.Sign() == 0 {
		return b
	}
	if b.IsConst() && b.C.Sign() == 0 {
		return a
	}
	// (x + c1) + c2
	if b.IsConst() && a.Op == "+" && len(a.Args) == 2 && a.Args[1].IsConst() {
		return Add(a.Args[0], BigC(new(big.Int).Add(a.Args[1].C, b.C)))
	}
	return mk("+", IntS, a, b)
}

func Sub(a, b *Term) *Term {
	if a.S.K == SBV {
		if a.IsConst() && b.IsConst() {
			return BVC(new(big.Int).Sub(a.C, b.C), a.S.W)
		}
		return mk("bvsub", a.S, a, b)
	}
	if a.IsConst() && b.IsConst() {
		return BigC(new(big.Int).Sub(a.C, b.C))
	}
	if b.IsConst() {
		return Add(a, BigC(new(big.Int).Neg(b.C)))
	}
	if a == b {
		return IntC(0)
	}
	return mk("-", IntS, a, b)
}

func Mul(a, b *Term) *Term {
	if a.S.K == SBV {
		if a.IsConst() && b.IsConst() {
			return BVC(new(big.Int).Mul(a.C, b.C), a.S.W)
		}
		return mk("bvmul", a.S, a, b)
	}
	if a.IsConst() && b.IsConst() {
		return BigC(new(big.Int).Mul(a.C, b.C))
	}
	if a.IsConst() && a.C.Cmp(big.NewInt(1)) == 0 {
		return b
	}
	if b.IsConst() && b.C.Cmp(big.NewInt(1)) == 0 {
		return a
	}
	if (a.IsConst() && a.C.Sign() == 0) || (b.IsConst() && b.C.Sign() == 0) {
		return IntC(0)
	}
	return mk("*", IntS, a, b)
}

// Euclidean div/mod of SMT-LIB (divisor sign handled by callers).
func Div(a, b *Term) *Term {
	if a.IsConst() && b.IsConst() && b.C.Sign() != 0 {
		q, _ := new(big.Int).DivMod(a.C, b.C, new(big.Int))
		return BigC(q)
	}
	if b.IsConst() && b.C.Cmp(big.NewInt(1)) == 0 {
		return a
	}
	return mk("div", IntS, a, b)
}

func Mod(a, b *Term) *Term {
	if a.IsConst() && b.IsConst() && b.C.Sign() != 0 {
		_, m := new(big.Int).DivMod(a.C, b.C, new(big.Int))
		return BigC(m)
	}
	return mk("mod", IntS, a, b)
}

func Neg(a *Term) *Term { return Sub(IntC(0), a) }

func cmpConst(op string, a, b *big.Int) bool {
	c := a.Cmp(b)
	switch op {
	case "<":
		return c < 0
	case "<=":
		return c <= 0
	case ">":
		return c > 0
	case ">=":
		return c >= 0
	}
	return false
}

func Cmp(op string, a, b *Term) *Term {
	if a.S.K == SInt && a.IsConst() && b.IsConst() {
		return BoolC(cmpConst(op, a.C, b.C))
	}
	return mk(op, BoolS, a, b)
}

func Lt(a, b *Term) *Term { return Cmp("<", a, b) }
func Le(a, b *Term) *Term { return Cmp("<=", a, b) }
func Gt(a, b *Term) *Term { return Cmp(">", a, b) }
func Ge(a, b *Term) *Term { return Cmp(">=", a, b) }

func Eq(a, b *Term) *Term {
	if a == b {
		return TrueT
	}
	if a.IsConst() && b.IsConst() && a.S.K == b.S.K {
		return BoolC(a.C.Cmp(b.C) == 0)
	}
	if a.S.K == SBool {
		if a.IsTrue() {
			return b
		}
		if b.IsTrue() {
			return a
		}
		if a.IsFalse() {
			return Not(b)
		}
		if b.IsFalse() {
			return Not(a)
		}
	}
	if a.Op == "var" && b.Op == "var" && a.Name == b.Name {
		return TrueT
	}
	return mk("=", BoolS, a, b)
}

func Ne(a, b *Term) *Term { return Not(Eq(a, b)) }

func Not(a *Term) *Term {
	switch a.Op {
	case "true":
		return FalseT
	case "false":
		return TrueT
	case "not":
		return a.Args[0]
	}
	return mk("not", BoolS, a)
}

func And(ts ...*Term) *Term {
	var out []*Term
	for _, t := range ts {
		if t.IsTrue() {
			continue
		}
		if t.IsFalse() {
			return FalseT
		}
		if t.Op == "and" {
			out = append(out, t.Args...)
		} else {
			out = append(out, t)
		}
	}
	if len(out) == 0 {
		return TrueT
	}
	if len(out) == 1 {
		return out[0]
	}
	return mk("and", BoolS, out...)
}

func Or(ts ...*Term) *Term {
	var out []*Term
	for _, t := range ts {
		if t.IsFalse() {
			continue
		}
		if t.IsTrue() {
			return TrueT
		}
		if t.Op == "or" {
			out = append(out, t.Args...)
		} else {
			out = append(out, t)
		}
	}
	if len(out) == 0 {
		return FalseT
	}
	if len(out) == 1 {
		return out[0]
	}
	return mk("or", BoolS, out...)
}

func Implies(a, b *Term) *Term {
	if a.IsTrue() {
		return b
	}
	if a.IsFalse() || b.IsTrue() {
		return TrueT
	}
	if b.IsFalse() {
		return Not(a)
	}
	return mk("=>", BoolS, a, b)
}

func Ite(c, a, b *Term) *Term {
	if c.IsTrue() {
		return a
	}
	if c.IsFalse() {
		return b
	}
	if a == b {
		return a
	}
	if a.S.K == SBool {
		if a.IsTrue() && b.IsFalse() {
			return c
		}
		if a.IsFalse() && b.IsTrue() {
			return Not(c)
		}
	}
	if a.IsConst() && b.IsConst() && a.S.K == b.S.K && a.C.Cmp(b.C) == 0 {
		return a
	}
	return mk("ite", a.S, c, a, b)
}

func Select(a, i *Term) *Term {
	if a.S.K != SArr {
		panic("select on non-array " + a.String())
	}
	// read-over-write with syntactically equal / distinct-constant indices
	for a.Op == "store" {
		j := a.Args[1]
		if j == i || (j.Op == "var" && i.Op == "var" && j.Name == i.Name) {
			return a.Args[2]
		}
		if j.IsConst() && i.IsConst() {
			if j.C.Cmp(i.C) == 0 {
				return a.Args[2]
			}
			a = a.Args[0]
			continue
		}
		if distinctRefs(i, j) {
			a = a.Args[0]
			continue
		}
		break
	}
	return mk("select", a.S.E, a, i)
}

// distinctRefs: references that are different by construction: an object
// allocated by the function under verification ("new!N" equals the allocation
// frontier at that moment) differs from every input reference, from every
// constant reference and from every other allocation.
func distinctRefs(a, b *Term) bool {
	isNew := func(t *Term) bool { return t.Op == "var" && strings.HasPrefix(t.Name, "new!") }
	isOld := func(t *Term) bool {
		return (t.Op == "var" && (strings.HasPrefix(t.Name, "in.") || strings.HasPrefix(t.Name, "fv."))) || (t.IsConst() && t.S.K == SInt)
	}
	if isNew(a) && isNew(b) {
		return a.Name != b.Name
	}
	return (isNew(a) && isOld(b)) || (isNew(b) && isOld(a))
}

func Store(a, i, v *Term) *Term {
	if a.S.K != SArr {
		panic("store on non-array")
	}
	return mk("store", a.S, a, i, v)
}

func Forall(bound []*Term, body *Term) *Term {
	if body.IsTrue() {
		return TrueT
	}
	if len(bound) == 0 {
		return body
	}
	return &Term{Op: "forall", S: BoolS, Args: []*Term{body}, Bound: bound}
}

func Exists(bound []*Term, body *Term) *Term {
	if body.IsFalse() {
		return FalseT
	}
	if len(bound) == 0 {
		return body
	}
	return &Term{Op: "exists", S: BoolS, Args: []*Term{body}, Bound: bound}
}

// bit-vector helpers
func BV(op string, a, b *Term) *Term { return mk(op, a.S, a, b) }
func BVCmp(op string, a, b *Term) *Term {
	return mk(op, BoolS, a, b)
}
func BVExtract(hi, lo int, a *Term) *Term {
	if a.IsConst() {
		v := new(big.Int).Rsh(a.C, uint(lo))
		return BVC(v, hi-lo+1)
	}
	return &Term{Op: "extract", S: BVS(hi - lo + 1), Args: []*Term{a}, C: big.NewInt(int64(hi)<<16 | int64(lo))}
}
func BVZeroExt(n int, a *Term) *Term {
	if n == 0 {
		return a
	}
	if a.IsConst() {
		return BVC(a.C, a.S.W+n)
	}
	return &Term{Op: "zero_extend", S: BVS(a.S.W + n), Args: []*Term{a}, C: big.NewInt(int64(n))}
}
func BVSignExt(n int, a *Term) *Term {
	if n == 0 {
		return a
	}
	return &Term{Op: "sign_extend", S: BVS(a.S.W + n), Args: []*Term{a}, C: big.NewInt(int64(n))}
}

// ---------------------------------------------------------------- substitution

// Subst replaces variables by name.
func Subst(t *Term, m map[string]*Term) *Term {
	if len(m) == 0 {
		return t
	}
	return subst(t, m)
}

func subst(t *Term, m map[string]*Term) *Term {
	switch t.Op {
	case "var":
		if r, ok := m[t.Name]; ok {
			return r
		}
		return t
	case "const", "true", "false":
		return t
	}
	if len(t.Bound) > 0 {
		m2 := m
		for _, b := range t.Bound {
			if _, ok := m[b.Name]; ok {
				if &m2 == &m || len(m2) == len(m) {
					m2 = map[string]*Term{}
					for k, v := range m {
						m2[k] = v
					}
				}
				delete(m2, b.Name)
			}
		}
		m = m2
	}
	changed := false
	args := make([]*Term, len(t.Args))
	for i, a := range t.Args {
		args[i] = subst(a, m)
		if args[i] != a {
			changed = true
		}
	}
	if !changed {
		return t
	}
	return rebuild(t, args)
}

// rebuild re-applies the smart constructor where there is one.
func rebuild(t *Term, args []*Term) *Term {
	switch t.Op {
	case "+":
		r := args[0]
		for _, a := range args[1:] {
			r = Add(r, a)
		}
		return r
	case "-":
		if len(args) == 2 {
			return Sub(args[0], args[1])
		}
	case "*":
		if len(args) == 2 {
			return Mul(args[0], args[1])
		}
	case "bvadd":
		return Add(args[0], args[1])
	case "bvsub":
		return Sub(args[0], args[1])
	case "bvmul":
		return Mul(args[0], args[1])
	case "bvsle", "bvslt", "bvsge", "bvsgt", "bvule", "bvult", "bvuge", "bvugt":
		if args[0].IsConst() && args[1].IsConst() {
			a, b := new(big.Int).Set(args[0].C), new(big.Int).Set(args[1].C)
			if t.Op[2] == 's' {
				w := args[0].S.W
				if a.Cmp(Pow2(w-1)) >= 0 {
					a.Sub(a, Pow2(w))
				}
				if b.Cmp(Pow2(w-1)) >= 0 {
					b.Sub(b, Pow2(w))
				}
			}
			op := map[string]string{"le": "<=", "lt": "<", "ge": ">=", "gt": ">"}[t.Op[3:]]
			return BoolC(cmpConst(op, a, b))
		}
	case "div":
		return Div(args[0], args[1])
	case "mod":
		return Mod(args[0], args[1])
	case "<", "<=", ">", ">=":
		return Cmp(t.Op, args[0], args[1])
	case "=":
		return Eq(args[0], args[1])
	case "not":
		return Not(args[0])
	case "and":
		return And(args...)
	case "or":
		return Or(args...)
	case "=>":
		return Implies(args[0], args[1])
	case "ite":
		return Ite(args[0], args[1], args[2])
	case "select":
		return Select(args[0], args[1])
	}
	n := *t
	n.Args = args
	n.hkey, n.hsize = "", 0 // (the cached structural key belongs to the original)
	return &n
}

// ---------------------------------------------------------------- printing

func (t *Term) String() string {
	var sb strings.Builder
	t.write(&sb)
	return sb.String()
}

func smtName(n string) string {
	ok := true
	for _, c := range n {
		if !(c >= 'a' && c <= 'z' || c >= 'A' && c <= 'Z' || c >= '0' && c <= '9' || strings.ContainsRune("_.$!@#%^&*-+<>=/?~", c)) {
			ok = false
			break
		}
	}
	if ok && n != "" && !(n[0] >= '0' && n[0] <= '9') {
		return n
	}
	return "|" + strings.ReplaceAll(n, "|", "!") + "|"
}

// cseCtx: common-subexpression naming for one script.  Closed subterms (no quantifier-bound variable inside) that
// occur more than once are printed once as a constant cse!N with the defining equation (= cse!N body) and referred to by name; terms are
// DAGs in memory and printing them as trees made scripts of several megabytes out of a few thousand nodes.
type cseCtx struct {
	key    map[*Term]string // structural key per node (memoised by pointer)
	count  map[string]int   // occurrences of a key as a child or root
	size   map[string]int   // node count (saturating)
	open   map[string]bool  // mentions a quantifier-bound variable
	name   map[string]string
	bound  map[string]bool
	defs   []string
	nextID int
}

func (c *cseCtx) keyOf(t *Term) string {
	if k, ok := c.key[t]; ok {
		return k
	}
	open := t.Op == "var" && c.bound[t.Name]
	for _, a := range t.Args {
		if c.open[c.keyOf(a)] {
			open = true
		}
	}
	if len(t.Bound) > 0 {
		open = true // quantified formulas are never hoisted
	}
	k := structKey(t)
	c.key[t] = k
	if _, seen := c.size[k]; !seen {
		c.size[k] = t.hsize
		c.open[k] = open
	}
	return k
}

// structKey: a collision-resistant structural key of the term, cached in the node.
func structKey(t *Term) string {
	if t.hkey != "" {
		return t.hkey
	}
	h := sha1.New()
	io.WriteString(h, t.Op)
	h.Write([]byte{0})
	io.WriteString(h, t.Name)
	h.Write([]byte{0})
	if t.C != nil {
		io.WriteString(h, t.C.String())
	}
	h.Write([]byte{0})
	if t.S != nil {
		io.WriteString(h, t.S.String())
	}
	sz := 1
	for _, b := range t.Bound {
		h.Write([]byte{1})
		io.WriteString(h, b.Name)
		io.WriteString(h, b.S.String())
	}
	for _, a := range t.Args {
		h.Write([]byte{2})
		io.WriteString(h, structKey(a))
		sz += a.hsize
	}
	if sz > 1<<20 {
		sz = 1 << 20
	}
	t.hsize = sz
	t.hkey = string(h.Sum(nil))
	return t.hkey
}

// countRefs counts, per distinct subterm, how often it is referred to from distinct parents (or as a root).
func (c *cseCtx) countRefs(t *Term, visited map[string]bool) {
	k := c.keyOf(t)
	c.count[k]++
	if visited[k] {
		return
	}
	visited[k] = true
	for _, a := range t.Args {
		c.countRefs(a, visited)
	}
}

var noCSE = os.Getenv("GOVC_NOCSE") != ""

// cseOver: scripts longer than this as a tree are printed with shared subterms named
const cseOver = 3 << 20

func (c *cseCtx) shared(t *Term) (string, bool) {
	k := c.key[t]
	if noCSE || c.count[k] < 2 || c.open[k] || c.size[k] < 4 || t.Op == "var" || t.Op == "const" {
		return k, false
	}
	return k, true
}

// ref writes t, naming it first when it is shared.
func (c *cseCtx) ref(t *Term, sb *strings.Builder) {
	k, sh := c.shared(t)
	if !sh {
		t.writeC(sb, c)
		return
	}
	if n, ok := c.name[k]; ok {
		sb.WriteString(n)
		return
	}
	var body strings.Builder
	t.writeC(&body, c)
	c.nextID++
	n := fmt.Sprintf("cse!%d", c.nextID)
	c.name[k] = n
	// a named constant with a defining equation (not define-fun: the solvers expand those back into the tree,
	// and z3 was then an order of magnitude slower on the quantified queries than with the equations)
	c.defs = append(c.defs, fmt.Sprintf("(declare-fun %s () %s)\n(assert (= %s %s))\n", n, t.S.String(), n, body.String()))
	sb.WriteString(n)
}

func (t *Term) write(sb *strings.Builder) { t.writeC(sb, nil) }

func (t *Term) writeC(sb *strings.Builder, c *cseCtx) {
	w := func(a *Term) {
		if c != nil {
			c.ref(a, sb)
		} else {
			a.writeC(sb, nil)
		}
	}
	switch t.Op {
	case "var":
		sb.WriteString(smtName(t.Name))
	case "const":
		if t.S.K == SBV {
			fmt.Fprintf(sb, "(_ bv%s %d)", t.C.String(), t.S.W)
		} else if t.C.Sign() < 0 {
			fmt.Fprintf(sb, "(- %s)", new(big.Int).Neg(t.C).String())
		} else {
			sb.WriteString(t.C.String())
		}
	case "true", "false":
		sb.WriteString(t.Op)
	case "app":
		if len(t.Args) == 0 {
			sb.WriteString(smtName(t.Name))
			return
		}
		sb.WriteString("(" + smtName(t.Name))
		for _, a := range t.Args {
			sb.WriteByte(' ')
			w(a)
		}
		sb.WriteByte(')')
	case "forall", "exists":
		sb.WriteString("(" + t.Op + " (")
		for _, b := range t.Bound {
			fmt.Fprintf(sb, "(%s %s)", smtName(b.Name), b.S.String())
		}
		sb.WriteString(") ")
		w(t.Args[0])
		sb.WriteByte(')')
	case "extract":
		hi, lo := t.C.Int64()>>16, t.C.Int64()&0xffff
		fmt.Fprintf(sb, "((_ extract %d %d) ", hi, lo)
		w(t.Args[0])
		sb.WriteByte(')')
	case "constarr":
		sb.WriteString("((as const " + t.S.String() + ") ")
		w(t.Args[0])
		sb.WriteByte(')')
	case "zero_extend", "sign_extend":
		fmt.Fprintf(sb, "((_ %s %d) ", t.Op, t.C.Int64())
		w(t.Args[0])
		sb.WriteByte(')')
	default:
		sb.WriteString("(" + t.Op)
		for _, a := range t.Args {
			sb.WriteByte(' ')
			w(a)
		}
		sb.WriteByte(')')
	}
}

// collect free variables and uninterpreted functions of a set of terms.
type decls struct {
	vars map[string]*Sort
	funs map[string]*Term // sample application
}

func (d *decls) walk(t *Term, bound map[string]int) {
	switch t.Op {
	case "var":
		if bound[t.Name] == 0 {
			d.vars[t.Name] = t.S
		}
		return
	case "app":
		if _, ok := d.funs[t.Name]; !ok {
			d.funs[t.Name] = t
		}
	}
	for _, b := range t.Bound {
		bound[b.Name]++
	}
	for _, a := range t.Args {
		d.walk(a, bound)
	}
	for _, b := range t.Bound {
		bound[b.Name]--
	}
}

// Script renders an SMT-LIB script: hyps ∧ ¬goal (goal may be nil for a cover
// query).  defs are define-fun-rec-free axioms already part of hyps.
func Script(hyps []*Term, goal *Term, getModel bool, modelTerms []*Term) string {
	d := &decls{vars: map[string]*Sort{}, funs: map[string]*Term{}}
	b := map[string]int{}
	for _, h := range hyps {
		d.walk(h, b)
	}
	if goal != nil {
		d.walk(goal, b)
	}
	for _, m := range modelTerms {
		d.walk(m, b)
	}
	var sb strings.Builder
	sb.WriteString("(set-option :produce-models true)\n(set-logic ALL)\n")
	names := make([]string, 0, len(d.vars))
	for n := range d.vars {
		names = append(names, n)
	}
	sort.Strings(names)
	for _, n := range names {
		fmt.Fprintf(&sb, "(declare-fun %s () %s)\n", smtName(n), d.vars[n].String())
	}
	fnames := make([]string, 0, len(d.funs))
	for n := range d.funs {
		fnames = append(fnames, n)
	}
	sort.Strings(fnames)
	for _, n := range fnames {
		f := d.funs[n]
		fmt.Fprintf(&sb, "(declare-fun %s (", smtName(n))
		for i, a := range f.Args {
			if i > 0 {
				sb.WriteByte(' ')
			}
			sb.WriteString(a.S.String())
		}
		fmt.Fprintf(&sb, ") %s)\n", f.S.String())
	}
	// Scripts are printed as they are unless they are very large: naming shared subterms changes how the solvers
	// search (a borderline quantified query of C14 that z3 proves in 3 s as a tree timed out with names), so
	// the sharing pass is a fallback for scripts that would otherwise come near the size cap, not the default.
	small := true
	plainFirst := true
	if noCSE || (small && plainFirst) {
		mark := sb.Len()
		for _, h := range hyps {
			if h.IsTrue() {
				continue
			}
			sb.WriteString("(assert ")
			h.write(&sb)
			sb.WriteString(")\n")
		}
		if goal != nil {
			sb.WriteString("(assert (not ")
			goal.write(&sb)
			sb.WriteString("))\n")
		}
		sb.WriteString("(check-sat)\n")
		if getModel && len(modelTerms) > 0 {
			sb.WriteString("(get-value (")
			for _, m := range modelTerms {
				m.write(&sb)
				sb.WriteByte(' ')
			}
			sb.WriteString("))\n")
		}
		if noCSE || sb.Len() <= cseOver {
			return sb.String()
		}
		// too large as a tree: print again with shared subterms named
		head := sb.String()[:mark]
		sb.Reset()
		sb.WriteString(head)
	}
	c := &cseCtx{key: map[*Term]string{}, count: map[string]int{}, size: map[string]int{}, open: map[string]bool{}, name: map[string]string{}, bound: map[string]bool{}}
	var collectBound func(t *Term, seen map[*Term]bool)
	collectBound = func(t *Term, seen map[*Term]bool) {
		if seen[t] {
			return
		}
		seen[t] = true
		for _, bv := range t.Bound {
			c.bound[bv.Name] = true
		}
		for _, a := range t.Args {
			collectBound(a, seen)
		}
	}
	seen := map[*Term]bool{}
	for _, h := range hyps {
		collectBound(h, seen)
	}
	if goal != nil {
		collectBound(goal, seen)
	}
	visited := map[string]bool{}
	for _, h := range hyps {
		if !h.IsTrue() {
			c.countRefs(h, visited)
		}
	}
	if goal != nil {
		c.countRefs(goal, visited)
	}
	var asserts strings.Builder
	for _, h := range hyps {
		if h.IsTrue() {
			continue
		}
		asserts.WriteString("(assert ")
		h.writeC(&asserts, c)
		asserts.WriteString(")\n")
	}
	if goal != nil {
		asserts.WriteString("(assert (not ")
		goal.writeC(&asserts, c)
		asserts.WriteString("))\n")
	}
	var mv strings.Builder
	if getModel && len(modelTerms) > 0 {
		mv.WriteString("(get-value (")
		for _, m := range modelTerms {
			m.writeC(&mv, nil) // (the answer is matched by the term's own text)
			mv.WriteByte(' ')
		}
		mv.WriteString("))\n")
	}
	for _, d := range c.defs {
		sb.WriteString(d)
	}
	sb.WriteString(asserts.String())
	sb.WriteString("(check-sat)\n")
	sb.WriteString(mv.String())
	return sb.String()
}

// termSize is a cheap size measure used for the VC size cap.
func termSize(t *Term) int {
	n := 1
	for _, a := range t.Args {
		n += termSize(a)
	}
	return n
}

// groundTerms collects candidate instantiation terms of Int sort occurring as
// array indices or UF arguments (used for hand instantiation of quantified
// hypotheses).
// refVars: names of variables that stand for object references (never useful
// as instances of integer binders).
var refVars = map[string]bool{}

func isRefVar(t *Term) bool {
	return t.Op == "var" && (refVars[t.Name] || strings.HasPrefix(t.Name, "new!") || strings.HasPrefix(t.Name, "brk"))
}

func addIndexCand(ix *Term, out map[string]*Term, bound map[string]int) {
	if ix.S.K != SInt || !closed(ix, bound) || isRefVar(ix) {
		return
	}
	out[ix.String()] = ix
	if ix.Op == "+" {
		var sum []*Term
		addSummands(ix, &sum)
		for _, a := range sum {
			if !a.IsConst() && (a.Op == "app" || a.Op == "select" || (a.Op == "var" && strings.HasPrefix(a.Name, "sk."))) {
				out[a.String()] = a
			}
		}
	}
}

// objectHeap: the array is indexed by object references (field heaps, version
// maps), whose indices are never useful instances for integer binders.
func objectHeap(a *Term) bool {
	for a.Op == "store" {
		a = a.Args[0]
	}
	if a.Op != "var" {
		return false
	}
	n := a.Name
	for _, p := range []string{"$H!", "hvH!", "ukH!", "evH!", "absver", "ghghost!absver", "$M!", "hvM!", "ukM!", "evM!", "$S!", "$MP!", "$MV!"} {
		if strings.HasPrefix(n, p) {
			// element memories ($M, $S) are reference-indexed at the outer level only
			return true
		}
	}
	return false
}

func indexTerms(t *Term, out map[string]*Term, bound map[string]int) {
	switch t.Op {
	case "select", "store":
		if !objectHeap(t.Args[0]) {
			addIndexCand(t.Args[1], out, bound)
		}
	case "mod", "div":
		if t.Args[0].S.K == SInt && closed(t.Args[0], bound) {
			out[t.Args[0].String()] = t.Args[0]
		}
	case "app":
		for _, a := range t.Args {
			if a.S.K == SInt && closed(a, bound) {
				out[a.String()] = a
			}
		}
	}
	for _, b := range t.Bound {
		bound[b.Name]++
	}
	for _, a := range t.Args {
		indexTerms(a, out, bound)
	}
	for _, b := range t.Bound {
		bound[b.Name]--
	}
}

func closed(t *Term, bound map[string]int) bool {
	if t.Op == "var" {
		return bound[t.Name] == 0
	}
	for _, a := range t.Args {
		if !closed(a, bound) {
			return false
		}
	}
	return true
}
