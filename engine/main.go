package main

import (
	"encoding/json"
	"flag"
	"fmt"
	"os"
	"path/filepath"
	"sort"
	"strings"
	"time"

	"golang.org/x/tools/go/ssa"
)

var verifRoot = "/verif"

type PropConfig struct {
	ID         string   `json:"id"`
	Packages   []string `json:"packages"`
	Contracts  []string `json:"contracts"` // "repo:<path under src>" or "spec:<path under /verif/contracts>"
	Verify     []string `json:"verify"`    // function names (short pkg.rel) or "*"
	Trusted    []string `json:"trusted_base"`
	NotDecided []string `json:"not_decided"`
	Bounded    []string `json:"bounded"`
	Extra      []string `json:"extra_checks"` // label checker etc.
	Note       string   `json:"note"`
	WriteSets  bool     `json:"writesets"` // check the writeset declarations of the loaded contract files
}

func main() {
	if len(os.Args) < 2 {
		fmt.Fprintln(os.Stderr, "usage: govc verify|ssa ...")
		os.Exit(2)
	}
	switch os.Args[1] {
	case "verify":
		os.Exit(cmdVerify(os.Args[2:]))
	case "ssa":
		cmdSSA(os.Args[2:])
	case "parse":
		for _, f := range os.Args[2:] {
			cf, err := ParseContractFile(f)
			if err != nil {
				fmt.Println("ERROR", err)
				os.Exit(1)
			}
			fmt.Printf("%s: %d funcs, %d pure, %d lemmas\n", f, len(cf.Funcs), len(cf.Pures), len(cf.Lemmas))
		}
	default:
		fmt.Fprintln(os.Stderr, "unknown command", os.Args[1])
		os.Exit(2)
	}
}

func cmdSSA(args []string) {
	l, err := Load([]string{args[0]}, nil)
	if err != nil {
		fmt.Println(err)
		os.Exit(1)
	}
	for _, p := range l.Pkgs {
		if !strings.HasPrefix(p.Pkg.Path(), repoMod) && !strings.Contains(args[0], p.Pkg.Path()) {
			continue
		}
		for _, f := range allFunctions(l.Prog, p) {
			if len(args) < 2 || relName(f) == args[1] || f.Name() == args[1] {
				f.WriteTo(os.Stdout)
			}
		}
	}
}

func cmdVerify(args []string) int {
	fs := flag.NewFlagSet("verify", flag.ExitOnError)
	prop := fs.String("property", "", "property id")
	tier := fs.String("tier", "quick", "quick|thorough")
	only := fs.String("only", "", "verify only functions whose name contains this")
	verbose := fs.Bool("v", false, "verbose")
	keep := fs.Bool("keep", false, "keep SMT scripts of discharged obligations")
	list := fs.Bool("list", false, "list obligations")
	tmo := fs.Int("timeout", 0, "solver timeout override (seconds)")
	fs.Parse(args)
	t0 := time.Now()
	cfgPath := filepath.Join(verifRoot, "props", *prop+".json")
	data, err := os.ReadFile(cfgPath)
	if err != nil {
		fmt.Println("cannot read property config:", err)
		return 2
	}
	var cfg PropConfig
	if err := json.Unmarshal(data, &cfg); err != nil {
		fmt.Println("bad property config:", err)
		return 2
	}
	if v := os.Getenv("VERIF_TIER"); v != "" && *tier == "quick" {
		if v == "thorough" {
			*tier = v
		}
	}
	rep := &Report{Cfg: &cfg, Tier: *tier, T0: t0}
	l, err := Load(cfg.Packages, nil)
	if err != nil {
		fmt.Println("LOAD ERROR:", err)
		rep.fatal("load-error", err.Error())
		return rep.finish()
	}
	E := NewEngine(l)
	E.tier = *tier
	E.verbose = *verbose
	E.keepScripts = *keep
	E.timeoutS = 40
	if *tier == "thorough" {
		E.timeoutS = 120
	}
	if *tmo > 0 {
		E.timeoutS = *tmo
	}
	rep.E = E
	for _, c := range cfg.Contracts {
		var path, pkg string
		switch {
		case strings.HasPrefix(c, "repo:"):
			rel := strings.TrimPrefix(c, "repo:")
			path = filepath.Join(repoSrc, rel)
			pkg = repoMod + "/" + filepath.ToSlash(filepath.Dir(rel))
		case strings.HasPrefix(c, "spec:"):
			path = filepath.Join(verifRoot, "contracts", strings.TrimPrefix(c, "spec:"))
		}
		cf, err := ParseContractFile(path)
		if err != nil {
			fmt.Println("CONTRACT ERROR:", err)
			rep.fatal("contract-parse-error", err.Error())
			return rep.finish()
		}
		E.AddContractFile(cf, pkg)
	}
	// attach contracts to functions
	targets := E.attach(&cfg, *only)
	for _, t := range targets {
		if *verbose {
			fmt.Printf("verifying %s\n", relName(t.fn))
		}
		E.VerifyFunction(t.fn, t.fc)
	}
	E.VerifyRows()
	if cfg.WriteSets {
		E.VerifyWriteSets()
	}
	E.VerifyLemmas()
	E.extraChecks(&cfg)
	rep.GenSeconds = time.Since(t0).Seconds()
	E.Discharge(10)
	if *list {
		for _, n := range E.order {
			o := E.obligs[n]
			fmt.Printf("%-8s %s (%d queries)\n", o.status(), n, len(o.Queries))
			if o.status() != "ok" {
				nf := 0
				for _, q := range o.Queries {
					if q.Result != "unsat" && nf < 3 {
						nf++
						fmt.Printf("         -> %s [%s] where=%s path=%s\n", q.Result, o.Src, o.Where, q.Path)
					}
				}
			}
		}
	}
	return rep.finish()
}

type target struct {
	fn *ssa.Function
	fc *FuncContract
}

// attach resolves every non-trusted contract of the repo contract files to an
// SSA function.  Contracts that do not attach are orphans and fail the run.
func (E *Engine) attach(cfg *PropConfig, only string) []target {
	byKey := map[string]*ssa.Function{}
	for _, p := range E.L.Prog.AllPackages() {
		for _, f := range allFunctions(E.L.Prog, p) {
			byKey[fnPkgPath(f)+"::"+relName(f)] = f
			byKey[fullName(f)] = f
		}
	}
	want := map[string]bool{}
	all := false
	for _, v := range cfg.Verify {
		if v == "*" {
			all = true
		}
		want[v] = true
	}
	var out []target
	keys := make([]string, 0, len(E.contracts))
	for k := range E.contracts {
		keys = append(keys, k)
	}
	sort.Strings(keys)
	for _, k := range keys {
		fc := E.contracts[k]
		fn := byKey[k]
		isIfaceMethod := strings.Contains(fc.Name, "(") && fn == nil && E.isInterfaceContract(k)
		if fc.Trusted || isIfaceMethod || strings.HasPrefix(fc.Name, "field ") {
			continue
		}
		if fn == nil {
			if E.pkgOfFC[fc] != "" {
				E.orphans = append(E.orphans, fmt.Sprintf("%s:%d: contract for %s does not attach to any function", fc.File, fc.Line, fc.Name))
			}
			continue
		}
		fc.attached = true
		if fc.Inline && len(fc.Ensures) == 0 && len(fc.Requires) == 0 {
			continue
		}
		short := shortPkg(fnPkgPath(fn)) + "." + relName(fn)
		if !all && !want[short] && !want[relName(fn)] && !want[fullName(fn)] && !want[fnPkgPath(fn)+"."+relName(fn)] {
			continue
		}
		if only != "" && !strings.Contains(short, only) {
			continue
		}
		out = append(out, target{fn, fc})
	}
	// deterministic order: by file name and offset (token.Pos alone depends on the order files were loaded in)
	posKey := func(f *ssa.Function) string {
		p := E.L.Prog.Fset.Position(f.Pos())
		return fmt.Sprintf("%s:%09d:%s", p.Filename, p.Offset, fullName(f))
	}
	sort.Slice(out, func(i, j int) bool { return posKey(out[i].fn) < posKey(out[j].fn) })
	return out
}

func (E *Engine) isInterfaceContract(key string) bool {
	// pkg::(T).m where T is an interface type of pkg
	i := strings.Index(key, "::(")
	if i < 0 {
		return false
	}
	pkg := key[:i]
	rest := key[i+3:]
	j := strings.Index(rest, ")")
	if j < 0 {
		return false
	}
	tn := strings.TrimPrefix(rest[:j], "*")
	p := E.L.Pkgs[pkg]
	if p == nil {
		return false
	}
	o := p.Pkg.Scope().Lookup(tn)
	if o == nil {
		return false
	}
	_, isI := o.Type().Underlying().(interface{ NumMethods() int })
	if !isI {
		return false
	}
	_, ok := o.Type().Underlying().(interface {
		NumExplicitMethods() int
	})
	return ok
}
