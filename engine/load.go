package main

// Loading /repo/src with the mechanical normalisation overlay, building SSA.

import (
	"bytes"
	"fmt"
	"go/ast"
	"go/parser"
	"go/token"
	"os"
	"path/filepath"
	"sort"
	"strings"

	"golang.org/x/tools/go/packages"
	"golang.org/x/tools/go/ssa"
	"golang.org/x/tools/go/ssa/ssautil"
)

var repoSrc = repoSrcDefault()

// repoSrcDefault: /repo/src, or the scratch copy named by GOVC_REPO (self-test of the machinery only).
func repoSrcDefault() string {
	if v := os.Getenv("GOVC_REPO"); v != "" {
		return v
	}
	return "/repo/src"
}

type Loaded struct {
	Prog    *ssa.Program
	Pkgs    map[string]*ssa.Package
	PPkgs   map[string]*packages.Package
	Drops   []string
	Overlay map[string][]byte
	Fset    *token.FileSet
}

// normalisationOverlay blanks top-level const/var/type declarations whose
// source text is byte-identical to an earlier declaration in the same package
// directory.  Line structure is preserved.
func normalisationOverlay(root string) (map[string][]byte, []string, error) {
	overlay := map[string][]byte{}
	var drops []string
	dirs := map[string][]string{}
	err := filepath.Walk(root, func(p string, info os.FileInfo, err error) error {
		if err != nil {
			return err
		}
		if info.IsDir() {
			if info.Name() == "vendor" || info.Name() == "integration-test" {
				return filepath.SkipDir
			}
			return nil
		}
		if strings.HasSuffix(p, ".go") && !strings.HasSuffix(p, "_test.go") {
			dirs[filepath.Dir(p)] = append(dirs[filepath.Dir(p)], p)
		}
		return nil
	})
	if err != nil {
		return nil, nil, err
	}
	for _, files := range dirs {
		sort.Strings(files)
		seen := map[string]string{}
		for _, f := range files {
			src, err := os.ReadFile(f)
			if err != nil {
				return nil, nil, err
			}
			fset := token.NewFileSet()
			af, err := parser.ParseFile(fset, f, src, parser.SkipObjectResolution)
			if err != nil {
				continue
			}
			out := src
			changed := false
			for _, d := range af.Decls {
				gd, ok := d.(*ast.GenDecl)
				if !ok || gd.Tok == token.IMPORT {
					continue
				}
				s, e := fset.Position(gd.Pos()).Offset, fset.Position(gd.End()).Offset
				text := string(src[s:e])
				if prev, dup := seen[text]; dup {
					if !changed {
						out = append([]byte(nil), src...)
						changed = true
					}
					for i := s; i < e; i++ {
						if out[i] != '\n' {
							out[i] = ' '
						}
					}
					rel, _ := filepath.Rel(root, f)
					drops = append(drops, fmt.Sprintf("%s:%d-%d duplicate of declaration at %s (byte-identical %s block blanked)",
						rel, fset.Position(gd.Pos()).Line, fset.Position(gd.End()).Line, prev, gd.Tok))
				} else {
					rel, _ := filepath.Rel(root, f)
					seen[text] = fmt.Sprintf("%s:%d", rel, fset.Position(gd.Pos()).Line)
				}
			}
			if changed {
				overlay[f] = out
			}
		}
	}
	sort.Strings(drops)
	return overlay, drops, nil
}

func Load(patterns []string, extraOverlay map[string][]byte) (*Loaded, error) {
	ov, drops, err := normalisationOverlay(repoSrc)
	if err != nil {
		return nil, err
	}
	for k, v := range extraOverlay {
		ov[k] = v
	}
	fset := token.NewFileSet()
	cfg := &packages.Config{
		Mode:       packages.LoadAllSyntax,
		Dir:        repoSrc,
		Fset:       fset,
		BuildFlags: []string{"-tags=verif"},
		Overlay:    ov,
		Env:        append(os.Environ(), "GOFLAGS=-mod=mod", "GOPROXY=off", "GOSUMDB=off", "GOTOOLCHAIN=local"),
	}
	pkgs, err := packages.Load(cfg, patterns...)
	if err != nil {
		return nil, err
	}
	var errs bytes.Buffer
	packages.Visit(pkgs, nil, func(p *packages.Package) {
		for _, e := range p.Errors {
			fmt.Fprintf(&errs, "%s: %v\n", p.PkgPath, e)
		}
	})
	if errs.Len() > 0 {
		return nil, fmt.Errorf("package errors:\n%s", errs.String())
	}
	prog, _ := ssautil.AllPackages(pkgs, ssa.NaiveForm|ssa.GlobalDebug|ssa.BareInits)
	prog.Build()
	l := &Loaded{Prog: prog, Pkgs: map[string]*ssa.Package{}, PPkgs: map[string]*packages.Package{}, Drops: drops, Overlay: ov, Fset: fset}
	for _, p := range prog.AllPackages() {
		l.Pkgs[p.Pkg.Path()] = p
	}
	packages.Visit(pkgs, nil, func(p *packages.Package) { l.PPkgs[p.PkgPath] = p })
	return l, nil
}

// allFunctions returns every function (incl. methods and closures) of a package.
func allFunctions(prog *ssa.Program, pkg *ssa.Package) []*ssa.Function {
	var out []*ssa.Function
	seen := map[*ssa.Function]bool{}
	var add func(f *ssa.Function)
	add = func(f *ssa.Function) {
		if f == nil || seen[f] {
			return
		}
		seen[f] = true
		out = append(out, f)
		for _, a := range f.AnonFuncs {
			add(a)
		}
	}
	for _, m := range pkg.Members {
		switch m := m.(type) {
		case *ssa.Function:
			add(m)
		case *ssa.Type:
			for _, t := range []interface {
				NumMethods() int
			}{} {
				_ = t
			}
			mset := prog.MethodSets.MethodSet(m.Type())
			for i := 0; i < mset.Len(); i++ {
				add(prog.MethodValue(mset.At(i)))
			}
			pset := prog.MethodSets.MethodSet(ptrTo(m.Type()))
			for i := 0; i < pset.Len(); i++ {
				add(prog.MethodValue(pset.At(i)))
			}
		}
	}
	sort.Slice(out, func(i, j int) bool { return out[i].Pos() < out[j].Pos() })
	return out
}
