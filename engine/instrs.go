package main

// Value-producing SSA instructions.

import (
	"fmt"
	"go/token"
	"go/types"
	"math/big"
	"strings"

	"golang.org/x/tools/go/ssa"
)

func ptrTo(t types.Type) types.Type { return types.NewPointer(t) }

func derefT(t types.Type) types.Type {
	if p, ok := t.Underlying().(*types.Pointer); ok {
		return p.Elem()
	}
	return t
}

// value executes a value instruction; returns true if it took over the
// continuation k (forked), false if the caller simply continues.
func (x *Exec) value(st *State, fr *Frame, in ssa.Value, k func(*State)) bool {
	switch v := in.(type) {
	case *ssa.Alloc:
		x.alloc(st, fr, v)
	case *ssa.UnOp:
		x.unop(st, fr, v)
	case *ssa.BinOp:
		a, b := x.reg(st, fr, v.X), x.reg(st, fr, v.Y)
		st.regs[v] = x.named(st, x.binop(st, v.Op, a, b, v.Type(), x.pos(v.Pos())), v.Name())
	case *ssa.Phi:
		// path-sensitive: the predecessor is known from the trace of the run;
		// we find it through the ghost marker set by run()
		panic("phi handled in run")
	case *ssa.Convert:
		st.regs[v] = x.named(st, x.convert(st, x.reg(st, fr, v.X), v.Type(), x.pos(v.Pos())), v.Name())
	case *ssa.ChangeType:
		st.regs[v] = x.coerce(x.reg(st, fr, v.X), v.Type())
	case *ssa.MakeInterface:
		st.regs[v] = x.makeInterface(st, x.reg(st, fr, v.X), v.Type())
	case *ssa.ChangeInterface:
		st.regs[v] = x.coerce(x.reg(st, fr, v.X), v.Type())
	case *ssa.TypeAssert:
		x.typeAssert(st, fr, v)
	case *ssa.Extract:
		tup := x.reg(st, fr, v.Tuple)
		off, ft := x.tc.tupleRange(v.Tuple.Type().(*types.Tuple), v.Index)
		n := x.tc.nleaves(ft)
		st.regs[v] = Val{T: ft, L: tup.L[off : off+n]}
	case *ssa.FieldAddr:
		base := x.reg(st, fr, v.X)
		sT := derefT(v.X.Type())
		off, ft := x.tc.fieldRange(sT, v.Field)
		if base.A != nil {
			na := *base.A
			na.Off += off
			na.T = ft
			st.regs[v] = Val{T: v.Type(), A: &na}
		} else {
			x.checkNil(st, base, x.pos(v.Pos()))
			st.regs[v] = Val{T: v.Type(), A: &Addr{K: AHeap, Key: typeKey(sT), Ref: base.L[0], Off: off, T: ft, contT: sT}}
		}
	case *ssa.Field:
		base := x.reg(st, fr, v.X)
		off, ft := x.tc.fieldRange(v.X.Type(), v.Field)
		n := x.tc.nleaves(ft)
		st.regs[v] = Val{T: ft, L: base.L[off : off+n]}
	case *ssa.IndexAddr:
		x.indexAddr(st, fr, v)
	case *ssa.Index:
		base := x.reg(st, fr, v.X)
		idx := x.idx(x.reg(st, fr, v.Index), v.Index.Type())
		switch bt := v.X.Type().Underlying().(type) {
		case *types.Array:
			x.boundsCheck(st, idx, x.idxConst(bt.Len()), x.pos(v.Pos()))
			a := &Addr{K: AElem, Key: typeKey(bt.Elem()), Ref: base.L[0], Idx: idx, T: bt.Elem(), contT: bt.Elem()}
			st.regs[v] = x.loadAddr(st, a)
		default:
			// string (generic index)
			x.boundsCheck(st, idx, base.L[2], x.pos(v.Pos()))
			st.regs[v] = Val{T: v.Type(), L: []*Term{x.strByte(st, base, idx)}}
		}
	case *ssa.Lookup:
		x.lookup(st, fr, v)
	case *ssa.Slice:
		x.sliceOp(st, fr, v)
	case *ssa.MakeSlice:
		ln := x.idx(x.reg(st, fr, v.Len), v.Len.Type())
		cp := x.idx(x.reg(st, fr, v.Cap), v.Cap.Type())
		x.oblige(st, "safe", "make", x.and(x.ule(x.idxConst(0), ln), x.ule(ln, cp)), "make: 0 <= len <= cap", x.pos(v.Pos()))
		st.assume(x.and(x.ule(x.idxConst(0), ln), x.ule(ln, cp), x.ule(cp, x.idxBig(Pow2(48)))))
		x.E.noteAssumption("allocation: make succeeds for non-negative sizes, and sizes stay below 2^48 (running out of memory is not modelled)")
		el := v.Type().Underlying().(*types.Slice).Elem()
		ref := x.allocMem(st, el)
		st.regs[v] = Val{T: v.Type(), L: []*Term{ref, x.idxConst(0), ln, cp}}
	case *ssa.MakeMap:
		ref := x.allocRef(st)
		st.regs[v] = Val{T: v.Type(), L: []*Term{ref}}
		x.mapInitEmpty(st, v.Type(), ref)
	case *ssa.MakeChan:
		ref := x.allocRef(st)
		st.regs[v] = Val{T: v.Type(), L: []*Term{ref}}
	case *ssa.MakeClosure:
		fn := v.Fn.(*ssa.Function)
		var binds []Val
		for _, b := range v.Bindings {
			binds = append(binds, x.reg(st, fr, b))
		}
		st.regs[v] = Val{T: v.Type(), L: []*Term{x.allocRef(st)}, Fn: fn, Bindings: binds}
	case *ssa.Range:
		xv := x.reg(st, fr, v.X)
		// iterator state: position (strings) or visited count (maps)
		it := Val{T: v.Type(), L: nil, Fn: v, Bindings: []Val{xv}}
		st.regs[v] = it
		st.ghost[iterKey(v)] = x.idxConst(0)
		if mt, ok := v.X.Type().Underlying().(*types.Map); ok && len(x.tc.leaves(mt.Elem())) == 1 && len(x.tc.leaves(mt.Key())) == 1 {
			pk, _, ps, _ := x.mapArrays(st, mt)
			st.ghost[iterKey(v)+"!p0"] = Select(x.heapArr(st, pk, ps), xv.L[0])
			st.ghost[iterKey(v)+"!vis"] = &Term{Op: "constarr", S: ps.E, Args: []*Term{FalseT}}
		}
	case *ssa.Next:
		x.next(st, fr, v)
	case *ssa.Select:
		return x.selectStmt(st, fr, v, k)
	case *ssa.SliceToArrayPointer:
		x.abort(st, "SliceToArrayPointer")
	default:
		x.abort(st, fmt.Sprintf("value instruction %T", in))
	}
	return false
}

// named gives a large scalar result a name (fresh variable constrained to equal
// the term), so that later terms mentioning it stay small.
func (x *Exec) named(st *State, v Val, hint string) Val {
	if v.A != nil || len(v.L) != 1 || x.dry {
		return v
	}
	t := v.L[0]
	if t.S.K == SArr || termSize(t) <= 10 {
		return v
	}
	n := x.E.fresh("v."+hint, t.S)
	st.assume(Eq(n, t))
	nv := v
	nv.L = []*Term{n}
	if v.Max != nil {
		st.assume(And(Le(IntC(0), n), Le(n, BigC(v.Max))))
	}
	return nv
}

// entryRefFacts: a reference read from heap state that has not been written
// since function entry points to an object that existed at entry.
func (x *Exec) entryRefFacts(v Val) *Term {
	if v.T == nil || v.A != nil {
		return TrueT
	}
	var facts []*Term
	ls := x.tc.leaves(v.T)
	for i, l := range ls {
		if i >= len(v.L) || l.S.K != SInt {
			continue
		}
		isRef := l.Path == "ref" || strings.HasSuffix(l.Path, ".ref") || (l.T != nil && isRefLike(l.T))
		if !isRef {
			continue
		}
		t := v.L[i]
		if t.Op == "select" && t.Args[0].Op == "var" && strings.HasSuffix(t.Args[0].Name, "@0") {
			facts = append(facts, Lt(t, Var("brk@0", IntS)))
		}
	}
	return And(facts...)
}

func (x *Exec) and(ts ...*Term) *Term { return And(ts...) }

func (x *Exec) idxBig(v *big.Int) *Term {
	if x.tc.bv {
		return BVC(v, 64)
	}
	return BigC(v)
}

// index arithmetic in both modes
func (x *Exec) ule(a, b *Term) *Term {
	if a.S.K == SBV {
		return BVCmp("bvule", a, b)
	}
	return Le(a, b)
}
func (x *Exec) ult(a, b *Term) *Term {
	if a.S.K == SBV {
		return BVCmp("bvult", a, b)
	}
	return Lt(a, b)
}
func (x *Exec) iadd(a, b *Term) *Term { return Add(a, b) }
func (x *Exec) isub(a, b *Term) *Term { return Sub(a, b) }

// idx converts an integer value of Go type t into an index term.
func (x *Exec) idx(v Val, t types.Type) *Term {
	tm := v.Term()
	if !x.tc.bv {
		return tm
	}
	w, signed, ok := intInfo(t)
	if !ok || tm.S.K != SBV {
		return tm
	}
	if w == 64 {
		return tm
	}
	if signed {
		return BVSignExt(64-w, tm)
	}
	return BVZeroExt(64-w, tm)
}

func (x *Exec) boundsCheck(st *State, i, n *Term, where string) {
	var g *Term
	if i.S.K == SBV {
		g = BVCmp("bvult", i, n)
	} else {
		g = And(Le(IntC(0), i), Lt(i, n))
	}
	x.oblige(st, "safe", "index", g, "index in range", where)
	st.assume(g)
}

func (x *Exec) checkNil(st *State, p Val, where string) {
	if p.A != nil || len(p.L) == 0 {
		return
	}
	g := Not(Eq(p.L[0], IntC(0)))
	if g.IsTrue() {
		return
	}
	x.oblige(st, "safe", "nil", g, "nil dereference", where)
	st.assume(g)
}

func (x *Exec) allocRef(st *State) *Term {
	r := x.E.fresh("new", IntS)
	st.assume(Eq(r, st.brk))
	nb := x.E.fresh("brk", IntS)
	st.assume(Eq(nb, Add(st.brk, IntC(1))))
	st.brk = nb
	return r
}

// allocMem allocates a zeroed backing store for elements of type el.
func (x *Exec) allocMem(st *State, el types.Type) *Term {
	ref := x.allocRef(st)
	for i, l := range x.tc.leaves(el) {
		k := hkey("M", typeKey(el), i)
		arr := x.heapArr(st, k, x.memSort(l))
		st.heap[k] = Store(arr, ref, zeroOfSort(arr.S.E))
	}
	return ref
}

// zeroObject gives the zero value of t, allocating backing stores for arrays.
func (x *Exec) zeroObject(st *State, t types.Type) Val {
	v := x.zeroVal(t)
	x.fixArrays(st, t, v.L)
	return v
}

func (x *Exec) fixArrays(st *State, t types.Type, L []*Term) {
	switch u := t.Underlying().(type) {
	case *types.Array:
		L[0] = x.allocMem(st, u.Elem())
	case *types.Struct:
		off := 0
		for i := 0; i < u.NumFields(); i++ {
			n := x.tc.nleaves(u.Field(i).Type())
			x.fixArrays(st, u.Field(i).Type(), L[off:off+n])
			off += n
		}
	}
}

func (x *Exec) alloc(st *State, fr *Frame, v *ssa.Alloc) {
	t := derefT(v.Type())
	zero := x.zeroObject(st, t)
	if !v.Heap {
		st.locals[v] = zero
		st.regs[v] = Val{T: v.Type(), A: &Addr{K: ALocal, Alloc: v, T: t, contT: t}}
		return
	}
	ref := x.allocRef(st)
	a := &Addr{K: AHeap, Key: typeKey(t), Ref: ref, T: t, contT: t}
	sd, se := x.dry, x.dryEff
	x.dry = false // initialising a fresh object is not an effect on existing state
	x.storeAddrRaw(st, a, zero)
	x.dry, x.dryEff = sd, se
	st.regs[v] = Val{T: v.Type(), L: []*Term{ref}}
	if n, ok := t.(*types.Named); ok && !x.dry {
		for _, cf := range x.E.files {
			for _, zf := range cf.ZeroFacts {
				if zf.Type == n.Obj().Name() {
					env := &Env{x: x, st: st, old: st, vars: map[string]Val{zf.Var: st.regs[v]}, pkgPath: fnPkgPath(fr.fn)}
					func() {
						defer func() {
							if r := recover(); r != nil {
								if _, isE := r.(evalError); !isE {
									panic(r)
								}
							}
						}()
						st.assume(x.evalBool(env, zf.E))
					}()
				}
			}
		}
	}
}

func (x *Exec) unop(st *State, fr *Frame, v *ssa.UnOp) {
	a := x.reg(st, fr, v.X)
	switch v.Op {
	case token.MUL: // load
		x.checkNil(st, a, x.pos(v.Pos()))
		ad := x.ptrAddr(a)
		x.checkLock(st, fr, ad, x.pos(v.Pos()))
		val := x.loadAddr(st, ad)
		if ad.K != ALocal {
			st.assume(x.typeInv(val, st))
			st.assume(x.entryRefFacts(val))
			val.Src = ad
		}
		st.regs[v] = val
	case token.NOT:
		st.regs[v] = Val{T: v.Type(), L: []*Term{Not(a.Term())}}
	case token.SUB:
		t := a.Term()
		if isFloat(v.Type()) {
			st.regs[v] = Val{T: v.Type(), L: []*Term{App("f64.neg", IntS, t)}}
		} else if t.S.K == SBV {
			st.regs[v] = Val{T: v.Type(), L: []*Term{mk("bvneg", t.S, t)}}
		} else {
			st.regs[v] = Val{T: v.Type(), L: []*Term{wrapAddSub(Neg(t), v.Type())}}
		}
	case token.XOR:
		t := a.Term()
		if t.S.K == SBV {
			st.regs[v] = Val{T: v.Type(), L: []*Term{mk("bvnot", t.S, t)}}
		} else {
			_, hi, _ := intRange(v.Type())
			_, signed, _ := intInfo(v.Type())
			if signed {
				st.regs[v] = Val{T: v.Type(), L: []*Term{Sub(IntC(-1), t)}}
			} else {
				st.regs[v] = Val{T: v.Type(), L: []*Term{Sub(BigC(hi), t)}}
			}
		}
	case token.ARROW:
		x.chanRecv(st, fr, v)
	default:
		x.abort(st, "unop "+v.Op.String())
	}
}

func (x *Exec) indexAddr(st *State, fr *Frame, v *ssa.IndexAddr) {
	base := x.reg(st, fr, v.X)
	idx := x.idx(x.reg(st, fr, v.Index), v.Index.Type())
	switch bt := v.X.Type().Underlying().(type) {
	case *types.Slice:
		x.boundsCheck(st, idx, base.L[2], x.pos(v.Pos()))
		st.regs[v] = Val{T: v.Type(), A: &Addr{K: AElem, Key: typeKey(bt.Elem()), Ref: base.L[0], Idx: x.iadd(base.L[1], idx), T: bt.Elem(), contT: bt.Elem()}}
	case *types.Pointer:
		at := bt.Elem().Underlying().(*types.Array)
		x.checkNil(st, base, x.pos(v.Pos()))
		arr := x.loadAddr(st, x.ptrAddr(base))
		x.boundsCheck(st, idx, x.idxConst(at.Len()), x.pos(v.Pos()))
		st.regs[v] = Val{T: v.Type(), A: &Addr{K: AElem, Key: typeKey(at.Elem()), Ref: arr.L[0], Idx: idx, T: at.Elem(), contT: at.Elem()}}
	default:
		x.abort(st, fmt.Sprintf("IndexAddr on %v", v.X.Type()))
	}
}

func (x *Exec) strByte(st *State, s Val, i *Term) *Term {
	arr := x.heapArr(st, hkey("S", "byte", 0), x.memSort(leafInfo{S: x.tc.scalarSort(types.Typ[types.Uint8])}))
	return Select(Select(arr, s.L[0]), x.iadd(s.L[1], i))
}

func (x *Exec) sliceOp(st *State, fr *Frame, v *ssa.Slice) {
	base := x.reg(st, fr, v.X)
	var lo, hi, max *Term
	if v.Low != nil {
		lo = x.idx(x.reg(st, fr, v.Low), v.Low.Type())
	} else {
		lo = x.idxConst(0)
	}
	if v.High != nil {
		hi = x.idx(x.reg(st, fr, v.High), v.High.Type())
	}
	if v.Max != nil {
		max = x.idx(x.reg(st, fr, v.Max), v.Max.Type())
	}
	where := x.pos(v.Pos())
	switch bt := v.X.Type().Underlying().(type) {
	case *types.Slice:
		ref, off, ln, cp := base.L[0], base.L[1], base.L[2], base.L[3]
		if hi == nil {
			hi = ln
		}
		lim := cp
		if max != nil {
			lim = max
			x.sliceCheck(st, And(x.ule(hi, max), x.ule(max, cp)), where)
		}
		x.sliceCheck(st, And(x.ule(x.idxConst(0), lo), x.ule(lo, hi), x.ule(hi, lim)), where)
		st.regs[v] = Val{T: v.Type(), L: []*Term{ref, x.iadd(off, lo), x.isub(hi, lo), x.isub(lim, lo)}}
	case *types.Basic: // string
		ref, off, ln := base.L[0], base.L[1], base.L[2]
		if hi == nil {
			hi = ln
		}
		x.sliceCheck(st, And(x.ule(x.idxConst(0), lo), x.ule(lo, hi), x.ule(hi, ln)), where)
		st.regs[v] = Val{T: v.Type(), L: []*Term{ref, x.iadd(off, lo), x.isub(hi, lo)}}
	case *types.Pointer:
		at := bt.Elem().Underlying().(*types.Array)
		x.checkNil(st, base, where)
		arr := x.loadAddr(st, x.ptrAddr(base))
		n := x.idxConst(at.Len())
		if hi == nil {
			hi = n
		}
		lim := n
		if max != nil {
			lim = max
		}
		x.sliceCheck(st, And(x.ule(x.idxConst(0), lo), x.ule(lo, hi), x.ule(hi, lim), x.ule(lim, n)), where)
		st.regs[v] = Val{T: v.Type(), L: []*Term{arr.L[0], lo, x.isub(hi, lo), x.isub(lim, lo)}}
	default:
		x.abort(st, fmt.Sprintf("Slice on %v", v.X.Type()))
	}
}

func (x *Exec) sliceCheck(st *State, g *Term, where string) {
	x.oblige(st, "safe", "slice", g, "slice bounds in range", where)
	st.assume(g)
}

// ---------------------------------------------------------------- arithmetic

func (x *Exec) binop(st *State, op token.Token, a, b Val, rt types.Type, where string) Val {
	switch op {
	case token.EQL, token.NEQ:
		e := x.valEq(st, a, b)
		if op == token.NEQ {
			e = Not(e)
		}
		return Val{T: rt, L: []*Term{e}}
	}
	at := a.T
	if isString(at) {
		switch op {
		case token.ADD:
			return x.strConcat(st, a, b, rt)
		default:
			r := App("str.cmp."+op.String(), BoolS, a.L[0], a.L[1], a.L[2], b.L[0], b.L[1], b.L[2])
			return Val{T: rt, L: []*Term{r}}
		}
	}
	if isFloat(at) {
		s := IntS
		switch op {
		case token.LSS, token.LEQ, token.GTR, token.GEQ:
			s = BoolS
		}
		return Val{T: rt, L: []*Term{App("f64."+op.String(), s, a.Term(), b.Term())}}
	}
	ta, tb := a.Term(), b.Term()
	if ta.S.K == SBool {
		switch op {
		case token.AND, token.LAND:
			return Val{T: rt, L: []*Term{And(ta, tb)}}
		case token.OR, token.LOR:
			return Val{T: rt, L: []*Term{Or(ta, tb)}}
		}
	}
	w, signed, _ := intInfo(at)
	if ta.S.K == SBV {
		return Val{T: rt, L: []*Term{x.bvBinop(st, op, ta, tb, w, signed, b.T, where)}}
	}
	var r *Term
	switch op {
	case token.ADD:
		r = wrapAddSub(Add(ta, tb), rt)
	case token.SUB:
		r = wrapAddSub(Sub(ta, tb), rt)
	case token.MUL:
		r = wrapMod(Mul(ta, tb), rt)
	case token.QUO, token.REM:
		nz := Not(Eq(tb, IntC(0)))
		x.oblige(st, "safe", "div0", nz, "division by zero", where)
		st.assume(nz)
		if !signed {
			if op == token.QUO {
				r = Div(ta, tb)
			} else {
				r = Mod(ta, tb)
			}
		} else {
			absA := Ite(Ge(ta, IntC(0)), ta, Neg(ta))
			absB := Ite(Ge(tb, IntC(0)), tb, Neg(tb))
			if op == token.QUO {
				q := Div(absA, absB)
				neg := Not(Eq(Lt(ta, IntC(0)), Lt(tb, IntC(0))))
				r = wrapAddSub(Ite(neg, Neg(q), q), rt)
			} else {
				m := Mod(absA, absB)
				r = Ite(Lt(ta, IntC(0)), Neg(m), m)
			}
		}
	case token.LSS:
		r = Lt(ta, tb)
	case token.LEQ:
		r = Le(ta, tb)
	case token.GTR:
		r = Gt(ta, tb)
	case token.GEQ:
		r = Ge(ta, tb)
	case token.AND, token.OR, token.XOR, token.AND_NOT, token.SHL, token.SHR:
		if rv, ok := x.disjointOr(op, a, b, rt, w); ok {
			return rv
		}
		r = x.bitop(st, op, ta, tb, rt, w, signed)
		out := Val{T: rt, L: []*Term{r}}
		// bounds of the result for later linearisation
		switch {
		case op == token.SHL && tb.IsConst():
			if m := maxOfVal(a); m != nil {
				k := int(tb.C.Int64())
				nm := new(big.Int).Lsh(m, uint(k))
				if nm.BitLen() <= w {
					out.Max, out.TZ = nm, a.TZ+k
				}
			}
		case op == token.AND && tb.IsConst() && tb.C.Sign() >= 0:
			out.Max = new(big.Int).Set(tb.C)
			if m := maxOfVal(a); m != nil && m.Cmp(out.Max) < 0 {
				out.Max = m
			}
		case op == token.SHR && tb.IsConst():
			if m := maxOfVal(a); m != nil {
				out.Max = new(big.Int).Rsh(m, uint(tb.C.Int64()))
			}
		}
		return out
	default:
		panic("binop " + op.String())
	}
	return Val{T: rt, L: []*Term{r}}
}

// maxOfVal: an upper bound of a non-negative scalar value, from tracked bounds
// or from its unsigned type.
func maxOfVal(v Val) *big.Int {
	if v.Max != nil {
		return v.Max
	}
	if len(v.L) == 1 && v.L[0].IsConst() && v.L[0].C.Sign() >= 0 {
		return v.L[0].C
	}
	if w, signed, ok := intInfo(v.T); ok && !signed {
		return new(big.Int).Sub(Pow2(w), big.NewInt(1))
	}
	return nil
}

// disjointOr: a | b (or a ^ b, a + b) where b fits entirely below the known
// trailing zero bits of a is exactly a + b.
func (x *Exec) disjointOr(op token.Token, a, b Val, rt types.Type, w int) (Val, bool) {
	if op != token.OR && op != token.XOR {
		return Val{}, false
	}
	try := func(hi, lo Val) (Val, bool) {
		m := maxOfVal(lo)
		hm := maxOfVal(hi)
		if m == nil || hm == nil || hi.TZ == 0 || m.BitLen() > hi.TZ {
			return Val{}, false
		}
		sum := new(big.Int).Add(hm, m)
		if sum.BitLen() > w {
			return Val{}, false
		}
		return Val{T: rt, L: []*Term{Add(hi.L[0], lo.L[0])}, Max: sum, TZ: lo.TZ}, true
	}
	if v, ok := try(a, b); ok {
		return v, true
	}
	return try(b, a)
}

func isString(t types.Type) bool {
	if t == nil {
		return false
	}
	b, ok := t.Underlying().(*types.Basic)
	return ok && b.Info()&types.IsString != 0
}

// isMask reports whether c == 2^k - 1.
func isMask(c *big.Int) (int, bool) {
	if c.Sign() <= 0 {
		return 0, false
	}
	n := new(big.Int).Add(c, big.NewInt(1))
	if n.BitLen()-1 > 0 && new(big.Int).And(n, c).Sign() == 0 {
		return n.BitLen() - 1, true
	}
	return 0, false
}

// bitop: bit operations over the Int encoding (linearised where an operand is
// a suitable constant, otherwise an uninterpreted result with sound bounds).
func (x *Exec) bitop(st *State, op token.Token, a, b *Term, rt types.Type, w int, signed bool) *Term {
	switch op {
	case token.SHL:
		if b.IsConst() {
			s := int(b.C.Int64())
			if s >= w {
				return IntC(0)
			}
			return wrapMod(Mul(a, BigC(Pow2(s))), rt)
		}
	case token.SHR:
		if b.IsConst() {
			s := int(b.C.Int64())
			if s >= w {
				if signed {
					return Ite(Lt(a, IntC(0)), IntC(-1), IntC(0))
				}
				return IntC(0)
			}
			return Div(a, BigC(Pow2(s))) // floor division == arithmetic shift
		}
	case token.AND:
		if a.IsConst() && !b.IsConst() {
			a, b = b, a
		}
		if b.IsConst() {
			if b.C.Sign() == 0 {
				return IntC(0)
			}
			if k, ok := isMask(b.C); ok {
				return Mod(a, BigC(Pow2(k)))
			}
			// contiguous mask 2^s*(2^k-1)
			tz := int(b.C.TrailingZeroBits())
			sh := new(big.Int).Rsh(b.C, uint(tz))
			if k, ok := isMask(sh); ok {
				return Mul(Mod(Div(a, BigC(Pow2(tz))), BigC(Pow2(k))), BigC(Pow2(tz)))
			}
			if b.C.Sign() < 0 && signed {
				// -2^s style mask: clears low bits
				n := new(big.Int).Neg(b.C)
				if n.BitLen() > 0 && new(big.Int).And(n, new(big.Int).Sub(n, big.NewInt(1))).Sign() == 0 {
					return Sub(a, Mod(a, BigC(n)))
				}
			}
		}
	case token.OR, token.XOR:
		if a.IsConst() && a.C.Sign() == 0 {
			return b
		}
		if b.IsConst() && b.C.Sign() == 0 {
			return a
		}
	}
	if a.IsConst() && b.IsConst() {
		if r, ok := constBitop(op, a.C, b.C, w, signed); ok {
			return BigC(r)
		}
	}
	// uninterpreted with bounds
	r := App("bit."+op.String()+fmt.Sprint(w), IntS, a, b)
	if (op == token.OR || op == token.XOR) && !signed {
		// x | c with a constant c: exact (x + c) whenever x lies below the lowest set bit of c
		v, c := a, b
		if v.IsConst() {
			v, c = b, a
		}
		if c.IsConst() && c.C.Sign() > 0 {
			if tz := int(c.C.TrailingZeroBits()); tz > 0 {
				st.assume(Implies(And(Le(IntC(0), v), Lt(v, BigC(Pow2(tz)))), Eq(r, Add(v, c))))
			}
		}
	}
	st.assume(rangeFact(r, rt))
	if !signed {
		switch op {
		case token.AND:
			st.assume(And(Le(r, a), Le(r, b)))
		case token.OR:
			st.assume(And(Ge(r, a), Ge(r, b), Le(r, Add(a, b))))
		case token.XOR:
			st.assume(Le(r, Add(a, b)))
		case token.SHR:
			st.assume(Le(r, a))
		case token.AND_NOT:
			st.assume(Le(r, a))
		}
	}
	return r
}

func constBitop(op token.Token, a, b *big.Int, w int, signed bool) (*big.Int, bool) {
	m := Pow2(w)
	ua, ub := new(big.Int).Mod(a, m), new(big.Int).Mod(b, m)
	var r *big.Int
	switch op {
	case token.AND:
		r = new(big.Int).And(ua, ub)
	case token.OR:
		r = new(big.Int).Or(ua, ub)
	case token.XOR:
		r = new(big.Int).Xor(ua, ub)
	case token.AND_NOT:
		r = new(big.Int).AndNot(ua, ub)
	default:
		return nil, false
	}
	if signed && r.Cmp(Pow2(w-1)) >= 0 {
		r.Sub(r, m)
	}
	return r, true
}

func (x *Exec) bvBinop(st *State, op token.Token, a, b *Term, w int, signed bool, bT types.Type, where string) *Term {
	// shifts: bring the shift amount to the width of the left operand
	if op == token.SHL || op == token.SHR {
		if b.S.K == SBV && b.S.W != a.S.W {
			if b.S.W < a.S.W {
				b = BVZeroExt(a.S.W-b.S.W, b)
			} else {
				// large shift amounts saturate: if any high bit set the result is 0/sign
				hi := BVExtract(b.S.W-1, a.S.W, b)
				low := BVExtract(a.S.W-1, 0, b)
				b = Ite(Eq(hi, BVC(big.NewInt(0), hi.S.W)), low, BVC(big.NewInt(int64(a.S.W)), a.S.W))
			}
		}
	}
	switch op {
	case token.ADD:
		return BV("bvadd", a, b)
	case token.SUB:
		return BV("bvsub", a, b)
	case token.MUL:
		return BV("bvmul", a, b)
	case token.QUO, token.REM:
		nz := Not(Eq(b, BVC(big.NewInt(0), b.S.W)))
		x.oblige(st, "safe", "div0", nz, "division by zero", where)
		st.assume(nz)
		n := map[bool]map[token.Token]string{true: {token.QUO: "bvsdiv", token.REM: "bvsrem"}, false: {token.QUO: "bvudiv", token.REM: "bvurem"}}[signed][op]
		return BV(n, a, b)
	case token.AND:
		return BV("bvand", a, b)
	case token.OR:
		return BV("bvor", a, b)
	case token.XOR:
		return BV("bvxor", a, b)
	case token.AND_NOT:
		return BV("bvand", a, mk("bvnot", b.S, b))
	case token.SHL:
		return BV("bvshl", a, b)
	case token.SHR:
		if signed {
			return BV("bvashr", a, b)
		}
		return BV("bvlshr", a, b)
	case token.LSS, token.LEQ, token.GTR, token.GEQ:
		n := map[token.Token]string{token.LSS: "lt", token.LEQ: "le", token.GTR: "gt", token.GEQ: "ge"}[op]
		if signed {
			return BVCmp("bvs"+n, a, b)
		}
		return BVCmp("bvu"+n, a, b)
	}
	panic("bv binop " + op.String())
}

func (x *Exec) valEq(st *State, a, b Val) *Term {
	if a.A != nil || b.A != nil {
		if a.A != nil && b.A != nil {
			return BoolC(a.A.K == b.A.K && a.A.Alloc == b.A.Alloc && a.A.Key == b.A.Key && a.A.Off == b.A.Off && a.A.Ref == b.A.Ref)
		}
		// structured address vs nil / opaque pointer
		return FalseT
	}
	if isString(a.T) || isString(b.T) {
		return x.strEq(st, a, b)
	}
	if isFloat(a.T) {
		return App("f64.==", BoolS, a.Term(), b.Term())
	}
	if a.T != nil {
		switch a.T.Underlying().(type) {
		case *types.Slice:
			// only comparison with nil is legal
			if b.L[0].IsConst() {
				return Eq(a.L[0], IntC(0))
			}
			return Eq(b.L[0], IntC(0))
		case *types.Interface:
			if _, bi := b.T.Underlying().(*types.Interface); !bi && b.T != nil {
				// comparing with a concrete value: box semantics not modelled
				return App("iface.eqconcrete", BoolS, a.L[0], a.L[1], b.L[0])
			}
		}
	}
	var es []*Term
	for i := range a.L {
		es = append(es, Eq(a.L[i], b.L[i]))
	}
	return And(es...)
}

// hasFreeBinder: the term mentions a variable bound by a contract quantifier (named NAME!qN).
func hasFreeBinder(t *Term) bool {
	if t.Op == "var" && strings.Contains(t.Name, "!q") {
		return true
	}
	for _, a := range t.Args {
		if hasFreeBinder(a) {
			return true
		}
	}
	return false
}

// strEq: content equality of two strings.
func (x *Exec) strEq(st *State, a, b Val) *Term {
	ca, oka := x.E.constStrOf(a)
	cb, okb := x.E.constStrOf(b)
	if oka && okb {
		return BoolC(ca == cb)
	}
	if okb {
		a, b, ca, oka, okb = b, a, cb, true, false
	}
	_ = okb
	if oka {
		// b == "literal": length and each byte
		es := []*Term{Eq(b.L[2], x.idxConst(int64(len(ca))))}
		for i := 0; i < len(ca); i++ {
			es = append(es, Eq(x.strByte(st, b, x.idxConst(int64(i))), x.intConst(big.NewInt(int64(ca[i])), types.Typ[types.Uint8])))
		}
		return And(es...)
	}
	if x.fc != nil {
		if _, atoms := x.fc.Flags["streq"]; atoms {
			// "flag streq atoms": the comparison is an atom str.eq(a, b) (strings are immutable, so
			// it is a function of the two string headers); its definition is added once per
			// ground pair: str.eq ==> same length and bytes; !str.eq ==> a length or byte differs.
			atom := App("str.eq", BoolS, a.L[0], a.L[1], a.L[2], b.L[0], b.L[1], b.L[2])
			key := atom.String()
			if !hasFreeBinder(atom) && !st.defined[key] {
				if st.defined == nil {
					st.defined = map[string]bool{}
				}
				st.defined[key] = true
				k := x.E.fresh("k", IntS)
				body := Implies(And(Le(IntC(0), k), Lt(k, a.L[2])), Eq(x.strByte(st, a, k), x.strByte(st, b, k)))
				st.assume(Implies(atom, And(Eq(a.L[2], b.L[2]), Forall([]*Term{k}, body))))
				sk := x.E.fresh("sk.streq", IntS)
				st.assume(Implies(Not(atom), Or(Not(Eq(a.L[2], b.L[2])),
					And(Le(IntC(0), sk), Lt(sk, a.L[2]), Not(Eq(x.strByte(st, a, sk), x.strByte(st, b, sk)))))))
			}
			return atom
		}
	}
	// general: uninterpreted extensional equality with the defining axiom as hypotheses
	k := x.E.fresh("k", IntS)
	body := Implies(And(Le(IntC(0), k), Lt(k, a.L[2])), Eq(x.strByte(st, a, k), x.strByte(st, b, k)))
	return And(Eq(a.L[2], b.L[2]), Forall([]*Term{k}, body))
}

func (x *Exec) strConcat(st *State, a, b Val, rt types.Type) Val {
	ca, oka := x.E.constStrOf(a)
	cb, okb := x.E.constStrOf(b)
	if oka && okb {
		return x.E.stringConst(x, ca+cb, rt)
	}
	ref := x.allocRef(st)
	r := Val{T: rt, L: []*Term{ref, x.idxConst(0), Add(a.L[2], b.L[2])}}
	k := x.E.fresh("k", IntS)
	st.assume(Forall([]*Term{k}, Implies(And(Le(IntC(0), k), Lt(k, a.L[2])), Eq(x.strByte(st, r, k), x.strByte(st, a, k)))))
	k2 := x.E.fresh("k", IntS)
	st.assume(Forall([]*Term{k2}, Implies(And(Le(IntC(0), k2), Lt(k2, b.L[2])), Eq(x.strByte(st, r, Add(a.L[2], k2)), x.strByte(st, b, k2)))))
	return r
}

// ---------------------------------------------------------------- conversions

func (x *Exec) convert(st *State, v Val, to types.Type, where string) Val {
	from := v.T
	_, _, fromInt := intInfo(from)
	_, _, toInt := intInfo(to)
	switch {
	case fromInt && toInt:
		out := Val{T: to, L: []*Term{x.convInt(v.Term(), from, to)}}
		if m := maxOfVal(v); m != nil {
			if _, hi, ok := intRange(to); ok && m.Cmp(hi) <= 0 {
				out.Max, out.TZ = m, v.TZ
			}
		}
		return out
	case fromInt && isFloat(to):
		return Val{T: to, L: []*Term{App("f64.ofint", IntS, x.asInt(v.Term(), from))}}
	case isFloat(from) && toInt:
		r := App("f64.toint", IntS, v.Term())
		st.assume(rangeFact(r, to))
		return Val{T: to, L: []*Term{r}}
	case isFloat(from) && isFloat(to):
		return Val{T: to, L: v.L}
	case isString(to):
		if sl, ok := from.Underlying().(*types.Slice); ok {
			_ = sl
			return x.bytesToString(st, v, to)
		}
		if fromInt {
			// string(rune): UTF-8 encoding; only the one-byte case is exact, the
			// others are known to start with a byte >= 0xC0
			ref := x.allocRef(st)
			ln := x.E.fresh("runelen", IntS)
			st.assume(And(Le(IntC(1), ln), Le(ln, IntC(4))))
			r := Val{T: to, L: []*Term{ref, IntC(0), ln}}
			if !x.tc.bv {
				c := v.Term()
				b0 := x.strByte(st, r, IntC(0))
				st.assume(Implies(And(Le(IntC(0), c), Lt(c, IntC(128))), And(Eq(ln, IntC(1)), Eq(b0, c))))
				st.assume(Implies(Not(And(Le(IntC(0), c), Lt(c, IntC(128)))), And(Ge(ln, IntC(2)), Ge(b0, IntC(0xC0)))))
			}
			return r
		}
		return Val{T: to, L: v.L}
	case isString(from):
		if sl, ok := to.Underlying().(*types.Slice); ok {
			if b, ok := sl.Elem().Underlying().(*types.Basic); ok && b.Kind() == types.Uint8 {
				return x.stringToBytes(st, v, to)
			}
		}
		x.abort(st, fmt.Sprintf("conversion %v -> %v", from, to))
		return x.freshVal("conv", to, st)
	}
	if len(x.tc.leaves(from)) == len(x.tc.leaves(to)) {
		return Val{T: to, L: v.L, A: v.A}
	}
	x.abort(st, fmt.Sprintf("conversion %v -> %v", from, to))
	return x.freshVal("conv", to, st)
}

func (x *Exec) asInt(t *Term, from types.Type) *Term { return t }

func (x *Exec) convInt(t *Term, from, to types.Type) *Term {
	fw, fs, _ := intInfo(from)
	tw, _, _ := intInfo(to)
	if t.S.K == SBV {
		switch {
		case tw == fw:
			return t
		case tw < fw:
			return BVExtract(tw-1, 0, t)
		case fs:
			return BVSignExt(tw-fw, t)
		default:
			return BVZeroExt(tw-fw, t)
		}
	}
	flo, fhi, _ := intRange(from)
	tlo, thi, _ := intRange(to)
	if b, ok := from.Underlying().(*types.Basic); ok && b.Info()&types.IsUntyped != 0 {
		return wrapMod(t, to)
	}
	if tlo.Cmp(flo) <= 0 && thi.Cmp(fhi) >= 0 {
		return t
	}
	return wrapMod(t, to)
}

func (x *Exec) byteMem(st *State) (string, *Term) {
	k := hkey("M", "byte", 0)
	bt := types.Typ[types.Uint8]
	k = hkey("M", typeKey(bt), 0)
	return k, x.heapArr(st, k, x.memSort(leafInfo{S: x.tc.scalarSort(bt)}))
}

func (x *Exec) strMem(st *State) *Term {
	return x.heapArr(st, hkey("S", "byte", 0), x.memSort(leafInfo{S: x.tc.scalarSort(types.Typ[types.Uint8])}))
}

func (x *Exec) bytesToString(st *State, v Val, to types.Type) Val {
	_, m := x.byteMem(st)
	// the string is identified by the content it was made from: the same
	// backing array, offset and length give the same string (so abstract
	// predicates over strings are functions of the content)
	ref := App("str.of", IntS, Select(m, v.L[0]), v.L[1], v.L[2])
	r := Val{T: to, L: []*Term{ref, x.idxConst(0), v.L[2]}}
	if !x.tc.bv {
		k := x.E.fresh("k", IntS)
		st.assume(Forall([]*Term{k}, Implies(And(Le(IntC(0), k), Lt(k, v.L[2])),
			Eq(x.strByte(st, r, k), Select(Select(m, v.L[0]), Add(v.L[1], k))))))
	}
	return r
}

func (x *Exec) stringToBytes(st *State, v Val, to types.Type) Val {
	ref := x.allocRef(st)
	key, m := x.byteMem(st)
	na := x.E.fresh("bytes", m.S.E)
	st.heap[key] = Store(m, ref, na)
	r := Val{T: to, L: []*Term{ref, x.idxConst(0), v.L[2], v.L[2]}}
	if !x.tc.bv {
		k := x.E.fresh("k", IntS)
		st.assume(Forall([]*Term{k}, Implies(And(Le(IntC(0), k), Lt(k, v.L[2])),
			Eq(Select(na, k), x.strByte(st, v, k)))))
	}
	return r
}

// ---------------------------------------------------------------- interfaces

func (x *Exec) makeInterface(st *State, v Val, it types.Type) Val {
	tag := x.E.typeTag(v.T)
	out := Val{T: it, L: []*Term{tag, IntC(0)}}
	if v.A != nil {
		// address of a field wrapped in an interface (e.g. sync.Locker(&p.mu)):
		// keep the structured address alongside
		out.Bindings = []Val{v}
		out.L[1] = x.E.fresh("ifaceaddr", IntS)
		return out
	}
	ls := x.tc.leaves(v.T)
	if len(ls) == 1 && ls[0].S.K == SInt && isRefLike(v.T) {
		out.L[1] = v.L[0]
		out.Fn, out.Bindings = v.Fn, v.Bindings
		return out
	}
	// box the value
	ref := x.allocRef(st)
	a := &Addr{K: AHeap, Key: "box:" + typeKey(v.T), Ref: ref, T: v.T, contT: v.T}
	sd := x.dry
	x.dry = false
	x.storeAddrRaw(st, a, v)
	x.dry = sd
	out.L[1] = ref
	return out
}

func isRefLike(t types.Type) bool {
	switch t.Underlying().(type) {
	case *types.Pointer, *types.Map, *types.Chan, *types.Signature:
		return true
	}
	return false
}

func (x *Exec) typeAssert(st *State, fr *Frame, v *ssa.TypeAssert) {
	iv := x.reg(st, fr, v.X)
	at := v.AssertedType
	var ok *Term
	var val Val
	if _, isI := at.Underlying().(*types.Interface); isI {
		ok = And(Not(Eq(iv.L[0], IntC(0))), App("implements."+sanitize(typeKey(at)), BoolS, iv.L[0]))
		val = Val{T: at, L: iv.L, Bindings: iv.Bindings}
	} else {
		ok = Eq(iv.L[0], x.E.typeTag(at))
		if isRefLike(at) {
			val = Val{T: at, L: []*Term{iv.L[1]}, Fn: iv.Fn, Bindings: iv.Bindings}
		} else {
			a := &Addr{K: AHeap, Key: "box:" + typeKey(at), Ref: iv.L[1], T: at, contT: at}
			val = x.loadAddr(st, a)
			st.assume(Implies(ok, x.typeInv(val, st)))
		}
	}
	if v.CommaOk {
		// (value, ok) — the value is the zero value when !ok
		zero := x.zeroVal(at)
		L := make([]*Term, 0, len(val.L)+1)
		for i := range val.L {
			L = append(L, Ite(ok, val.L[i], zero.L[i]))
		}
		L = append(L, ok)
		st.regs[v] = Val{T: v.Type(), L: L}
		return
	}
	x.oblige(st, "safe", "typeassert", ok, "type assertion holds", x.pos(v.Pos()))
	st.assume(ok)
	st.regs[v] = val
}
