package main

// Evaluation of contract expressions to terms, in a chosen program state.

import (
	"fmt"
	"go/constant"
	"go/types"
	"math/big"
	"strings"

	"golang.org/x/tools/go/ssa"
)

type Env struct {
	x       *Exec
	st      *State
	old     *State
	atlock  *State
	vars    map[string]Val
	fr      *Frame // for locals by name
	pkgPath string
	fc      *FuncContract
	depth   int
	recvT   types.Type
	// ghostScope: when evaluating a callee's contract at a call site, the
	// callee's monitor flags (signalled/waited) are fresh unknowns of that call
	ghostScope map[string]*Term
	relyOld    *State // in rely conditions old() means the state before the interference step
	localsSt   *State // state whose local variables names denote (old() keeps the current locals)
	cur        *State // the current state when st has been switched to an earlier one (old, atlock)
	loopHead   bool   // evaluating a loop invariant (variables declared in the body may not exist yet)
}

// heapVal: a slice or string header read from the heap by a contract satisfies its
// type invariant (0 <= len <= cap, offset >= 0): assumed on the current path.
func (x *Exec) heapVal(env *Env, v Val) Val {
	if v.T == nil || v.A != nil {
		return v
	}
	switch v.T.Underlying().(type) {
	case *types.Slice, *types.Interface, *types.Pointer, *types.Map:
	case *types.Basic:
		if !isString(v.T) {
			return v
		}
	default:
		return v
	}
	for _, l := range v.L {
		if hasFreeBinder(l) {
			return v
		}
	}
	st := env.cur
	if st == nil {
		st = env.st
	}
	st.assume(x.typeInv(v, st))
	return v
}

func (e *Env) with(vars map[string]Val) *Env {
	n := *e
	n.vars = map[string]Val{}
	for k, v := range e.vars {
		n.vars[k] = v
	}
	for k, v := range vars {
		n.vars[k] = v
	}
	return &n
}

// envFor: environment for clauses evaluated inside a function body (loop
// invariants, at-call assertions): names are the current locals; old() is the
// frame's entry state.
func (x *Exec) envFor(st *State, fr *Frame) *Env {
	env := &Env{x: x, st: st, old: fr.entry, vars: map[string]Val{}, fr: fr, pkgPath: fnPkgPath(fr.fn), fc: fr.fc}
	if fr.fc != nil {
		x.bindGhost(env, fr.fc, st)
	}
	return env
}

type evalError struct{ msg string }

func (x *Exec) evalFail(f string, a ...interface{}) {
	panic(evalError{fmt.Sprintf(f, a...)})
}

func (x *Exec) evalBool(env *Env, e *SExpr) *Term {
	v := x.eval(env, e)
	if len(v.L) != 1 || v.L[0].S.K != SBool {
		x.evalFail("expression %s is not boolean", e.String())
	}
	return v.L[0]
}

func (x *Exec) evalInt(env *Env, e *SExpr) *Term {
	v := x.eval(env, e)
	if len(v.L) != 1 {
		x.evalFail("expression %s is not scalar", e.String())
	}
	return v.L[0]
}

func (x *Exec) lookupLocal(env *Env, name string) (Val, bool) {
	if env.fr == nil {
		return Val{}, false
	}
	want := name
	ordinal := 0
	if i := strings.Index(name, "#"); i > 0 {
		want = name[:i]
		fmt.Sscanf(name[i+1:], "%d", &ordinal)
	}
	var cands []*ssa.Alloc
	for _, b := range env.fr.fn.Blocks {
		for _, in := range b.Instrs {
			if al, ok := in.(*ssa.Alloc); ok && al.Comment == want {
				cands = append(cands, al)
			}
		}
	}
	if len(cands) == 0 {
		// the name is not in the function (any more): a local that was only renamed is found through the position
		// recorded for it on the unchanged tree (the N-th named local of its type, in declaration order)
		if al := x.E.localByHint(env.fr.fn, want); al != nil {
			cands = append(cands, al)
		} else {
			return Val{}, false
		}
	}
	lst := env.st
	if env.localsSt != nil {
		lst = env.localsSt
	}
	pick := func(al *ssa.Alloc) (Val, bool) {
		if al.Heap {
			r, ok := lst.regs[al]
			if !ok {
				return Val{}, false
			}
			return x.loadAddr(lst, x.ptrAddr(r)), true
		}
		v, ok := lst.locals[al]
		return v, ok
	}
	if ordinal > 0 {
		if ordinal <= len(cands) {
			if v, ok := pick(cands[ordinal-1]); ok {
				return v, true
			}
			if env.loopHead && !cands[ordinal-1].Heap {
				t := cands[ordinal-1].Type().(*types.Pointer).Elem()
				return x.freshVal("undeclared."+want, t, lst), true
			}
		}
		return Val{}, false
	}
	// prefer the last candidate that has been allocated on this path
	for i := len(cands) - 1; i >= 0; i-- {
		if v, ok := pick(cands[i]); ok {
			return v, true
		}
	}
	if env.loopHead && len(cands) == 1 && !cands[0].Heap {
		// a loop invariant may name a variable that is declared inside the loop body: before the first
		// iteration it has no value yet (any value: the clause must hold whatever it is)
		t := cands[0].Type().(*types.Pointer).Elem()
		return x.freshVal("undeclared."+want, t, lst), true
	}
	return Val{}, false
}

// localPtr: the address (as a pointer value) of a heap-allocated local variable.
func (x *Exec) localPtr(env *Env, name string) (Val, bool) {
	if env.fr == nil {
		return Val{}, false
	}
	lst := env.st
	if env.localsSt != nil {
		lst = env.localsSt
	}
	var found Val
	ok := false
	for _, b := range env.fr.fn.Blocks {
		for _, in := range b.Instrs {
			if al, isA := in.(*ssa.Alloc); isA && al.Comment == name && al.Heap {
				if r, has := lst.regs[al]; has {
					found, ok = r, true
				}
			}
		}
	}
	return found, ok
}

func (x *Exec) eval(env *Env, e *SExpr) Val {
	switch e.K {
	case "int":
		return mathVal(x.mathConst(e.Int))
	case "str":
		return x.E.stringConst(x, e.Str, types.Typ[types.String])
	case "ident":
		return x.evalIdent(env, e.Name)
	case "un":
		v := x.eval(env, e.X)
		switch e.Op {
		case "!":
			return mathVal(Not(v.Term()))
		case "-":
			if v.Term().S.K == SBV {
				return Val{T: v.T, L: []*Term{mk("bvneg", v.Term().S, v.Term())}}
			}
			return mathVal(Neg(v.Term()))
		case "^":
			if v.Term().S.K == SBV {
				return Val{T: v.T, L: []*Term{mk("bvnot", v.Term().S, v.Term())}}
			}
		}
		x.evalFail("unary %s", e.Op)
	case "bin":
		return x.evalBin(env, e)
	case "ite":
		c := x.evalBool(env, e.X)
		a, b := x.eval(env, e.Y), x.eval(env, e.Z)
		a, b = x.unifyBV(a, b)
		if len(a.L) != len(b.L) {
			x.evalFail("ite branches differ in shape: %s", e.String())
		}
		out := Val{T: a.T, L: make([]*Term, len(a.L))}
		for i := range a.L {
			out.L[i] = Ite(c, a.L[i], b.L[i])
		}
		return out
	case "forall", "exists":
		vars := map[string]Val{}
		var bound []*Term
		var ranges []*Term
		for _, b := range e.Binds {
			x.E.nfresh++
			s, gt := x.sortOfBinder(b.Type)
			v := Var(fmt.Sprintf("%s!q%d", b.Name, x.E.nfresh), s)
			bound = append(bound, v)
			vars[b.Name] = Val{T: gt, L: []*Term{v}}
			if gt != nil && s.K == SInt {
				ranges = append(ranges, rangeFact(v, gt))
			}
		}
		body := x.evalBool(env.with(vars), e.X)
		if e.K == "forall" {
			return mathVal(Forall(bound, Implies(And(ranges...), body)))
		}
		return mathVal(Exists(bound, And(append(ranges, body)...)))
	case "call":
		return x.evalCall(env, e)
	case "index":
		base := x.eval(env, e.X)
		i := x.toIndex(x.eval(env, e.Y))
		return x.heapVal(env, x.indexVal(env.st, base, i))
	case "slice":
		base := x.eval(env, e.X)
		var lo, hi *Term
		if e.Y != nil {
			lo = x.toIndex(x.eval(env, e.Y))
		} else {
			lo = x.idxConst(0)
		}
		if e.Z != nil {
			hi = x.toIndex(x.eval(env, e.Z))
		} else {
			hi = base.L[2]
		}
		if isString(base.T) {
			return Val{T: base.T, L: []*Term{base.L[0], Add(base.L[1], lo), Sub(hi, lo)}}
		}
		return Val{T: base.T, L: []*Term{base.L[0], Add(base.L[1], lo), Sub(hi, lo), Sub(base.L[3], lo)}}
	case "sel":
		return x.evalSel(env, e)
	}
	x.evalFail("cannot evaluate %s", e.String())
	return Val{}
}

func (x *Exec) mathConst(v *big.Int) *Term { return BigC(v) }

func (x *Exec) sortOfBinder(t string) (*Sort, types.Type) {
	switch t {
	case "int":
		if x.tc.bv {
			return BVS(64), types.Typ[types.Int]
		}
		return IntS, nil
	case "bool":
		return BoolS, nil
	case "seq":
		return ArrS(IntS, IntS), nil
	}
	for _, b := range types.Typ {
		if b.Name() == t {
			if x.tc.bv {
				if w, _, ok := intInfo(b); ok {
					return BVS(w), b
				}
			}
			return IntS, b
		}
	}
	if t == "byte" {
		if x.tc.bv {
			return BVS(8), types.Typ[types.Uint8]
		}
		return IntS, types.Typ[types.Uint8]
	}
	return IntS, nil
}

func (x *Exec) toIndex(v Val) *Term {
	t := v.Term()
	if x.tc.bv && t.S.K == SBV && t.S.W < 64 {
		if v.T != nil {
			if _, signed, ok := intInfo(v.T); ok && signed {
				return BVSignExt(64-t.S.W, t)
			}
		}
		return BVZeroExt(64-t.S.W, t)
	}
	if x.tc.bv && t.S.K == SInt && t.IsConst() {
		return BVC(t.C, 64)
	}
	return t
}

func (x *Exec) indexVal(st *State, base Val, i *Term) Val {
	if base.T == nil {
		// mathematical sequence
		return mathVal(Select(base.L[0], i))
	}
	switch u := base.T.Underlying().(type) {
	case *types.Slice:
		a := &Addr{K: AElem, Key: typeKey(u.Elem()), Ref: base.L[0], Idx: Add(base.L[1], i), T: u.Elem(), contT: u.Elem()}
		return x.loadAddr(st, a)
	case *types.Array:
		a := &Addr{K: AElem, Key: typeKey(u.Elem()), Ref: base.L[0], Idx: i, T: u.Elem(), contT: u.Elem()}
		return x.loadAddr(st, a)
	case *types.Basic:
		if isString(base.T) {
			return Val{T: types.Typ[types.Uint8], L: []*Term{x.strByte(st, base, i)}}
		}
	case *types.Pointer:
		if at, ok := u.Elem().Underlying().(*types.Array); ok {
			arr := x.loadAddr(st, x.ptrAddr(base))
			a := &Addr{K: AElem, Key: typeKey(at.Elem()), Ref: arr.L[0], Idx: i, T: at.Elem(), contT: at.Elem()}
			return x.loadAddr(st, a)
		}
	}
	x.evalFail("cannot index %v", base.T)
	return Val{}
}

func (x *Exec) evalIdent(env *Env, name string) Val {
	if v, ok := env.vars[name]; ok {
		return v
	}
	switch name {
	case "true":
		return mathVal(TrueT)
	case "false":
		return mathVal(FalseT)
	case "nil":
		return Val{L: []*Term{IntC(0)}, Fn: "nil"}
	}
	if v, ok := x.lookupLocal(env, name); ok {
		return v
	}
	if env.fr != nil {
		if v, ok := env.fr.params[name]; ok {
			return v
		}
		// a renamed parameter: the parameter at the index the name had on the unchanged tree, if its type is the same
		if i := x.E.paramHintIndex(env.fr.fn, name); i >= 0 && i < len(env.fr.fn.Params) {
			pn := env.fr.fn.Params[i]
			known := false
			for _, h := range x.E.hints[fnKey(env.fr.fn)] {
				if h.Name == pn.Name() {
					known = true
				}
			}
			if v, ok := env.fr.params[pn.Name()]; ok && !known {
				x.E.noteAssumption(fmt.Sprintf("RENAMED PARAMETER: the contract of %s names %q; parameter %d is now called %q and is taken for it", fnKey(env.fr.fn), name, i, pn.Name()))
				return v
			}
		}
		for i, fv := range env.fr.fn.FreeVars {
			if fv.Name() == name && i < len(env.fr.freeVars) {
				return x.loadAddr(env.st, x.ptrAddr(env.fr.freeVars[i]))
			}
		}
	}
	if c, ok := x.E.consts[name]; ok {
		return x.eval(env, c)
	}
	if t, ok := env.st.ghost["ghost!"+name]; ok {
		return mathVal(t)
	}
	if gs, ok := x.E.ghostDecls[name]; ok {
		// a declared ghost variable that has not been assigned yet: its initial value
		return mathVal(Var("ghost0."+name, gs))
	}
	if v, ok := x.pkgObject(env, env.pkgPath, name); ok {
		return v
	}
	x.evalFail("unknown identifier %q", name)
	return Val{}
}

func (x *Exec) pkgObject(env *Env, pkgPath, name string) (Val, bool) {
	p := x.E.L.Pkgs[pkgPath]
	if p == nil {
		return Val{}, false
	}
	obj := p.Pkg.Scope().Lookup(name)
	switch o := obj.(type) {
	case *types.Const:
		switch o.Val().Kind() {
		case constant.Int:
			bi, _ := new(big.Int).SetString(o.Val().ExactString(), 10)
			return mathVal(BigC(bi)), true
		case constant.Bool:
			return mathVal(BoolC(constant.BoolVal(o.Val()))), true
		case constant.String:
			return x.E.stringConst(x, constant.StringVal(o.Val()), types.Typ[types.String]), true
		}
	case *types.Var:
		a := &Addr{K: AGlobal, Key: pkgPath + "." + name, T: o.Type(), contT: o.Type()}
		return x.loadAddr(env.st, a), true
	}
	return Val{}, false
}

func (x *Exec) evalSel(env *Env, e *SExpr) Val {
	if e.X.K == "ident" {
		if v, ok := env.vars[e.X.Name+"."+e.Name]; ok {
			return v
		}
		if e.X.Name == "top" && x.topFrame != nil && env.fr != x.topFrame {
			// a name of the function under verification, seen from an inlined callee's loop
			n := *env
			n.fr = x.topFrame
			n.vars = map[string]Val{}
			return x.evalIdent(&n, e.Name)
		}
	}
	// package-qualified name
	if e.X.K == "ident" {
		if _, isVar := env.vars[e.X.Name]; !isVar {
			if _, isLocal := x.lookupLocal(env, e.X.Name); !isLocal {
				if pp := x.E.importPath(env.pkgPath, e.X.Name); pp != "" {
					if v, ok := x.pkgObject(env, pp, e.Name); ok {
						return v
					}
				}
			}
		}
	}
	if a := x.evalAddr(env, e); a != nil {
		return x.heapVal(env, x.loadAddr(env.st, a))
	}
	base := x.eval(env, e.X)
	if base.T == nil {
		x.evalFail("selector %s on untyped value", e.String())
	}
	if pt, ok := base.T.Underlying().(*types.Pointer); ok && base.A == nil {
		if a := x.fieldOfPtr(base.L[0], pt.Elem(), e.Name); a != nil {
			return x.heapVal(env, x.loadAddr(env.st, a))
		}
	}
	st, ok := base.T.Underlying().(*types.Struct)
	if !ok {
		x.evalFail("selector %s on %v", e.String(), base.T)
	}
	idx, off := x.findField(base.T, e.Name)
	if idx == nil {
		x.evalFail("no field %s in %v", e.Name, base.T)
	}
	_ = st
	n := x.tc.nleaves(idx)
	return Val{T: idx, L: base.L[off : off+n]}
}

// findField finds a (possibly promoted) field; returns its type and leaf offset.
func (x *Exec) findField(t types.Type, name string) (types.Type, int) {
	st, ok := t.Underlying().(*types.Struct)
	if !ok {
		return nil, 0
	}
	off := 0
	for i := 0; i < st.NumFields(); i++ {
		f := st.Field(i)
		if f.Name() == name {
			return f.Type(), off
		}
		off += x.tc.nleaves(f.Type())
	}
	// embedded structs
	off = 0
	for i := 0; i < st.NumFields(); i++ {
		f := st.Field(i)
		if f.Embedded() {
			if _, isS := f.Type().Underlying().(*types.Struct); isS {
				if ft, o := x.findField(f.Type(), name); ft != nil {
					return ft, off + o
				}
			}
		}
		off += x.tc.nleaves(f.Type())
	}
	return nil, 0
}

// evalAddr resolves p.f (p pointer or addressable struct) / global names to an address.
func (x *Exec) evalAddr(env *Env, e *SExpr) *Addr {
	switch e.K {
	case "ident":
		if _, ok := env.vars[e.Name]; ok {
			return nil
		}
		if env.fr != nil {
			// captured variable of a closure: the address of its cell
			for i, fv := range env.fr.fn.FreeVars {
				if fv.Name() == e.Name && i < len(env.fr.freeVars) {
					return x.ptrAddr(env.fr.freeVars[i])
				}
			}
		}
		p := x.E.L.Pkgs[env.pkgPath]
		if p == nil {
			return nil
		}
		if o, ok := p.Pkg.Scope().Lookup(e.Name).(*types.Var); ok {
			return &Addr{K: AGlobal, Key: env.pkgPath + "." + e.Name, T: o.Type(), contT: o.Type()}
		}
		return nil
	case "sel":
		// top.NAME.field: a local of the function under verification, seen from an inlined callee
		if e.X.K == "sel" && e.X.X.K == "ident" && e.X.X.Name == "top" && x.topFrame != nil && env.fr != x.topFrame {
			n := *env
			n.fr = x.topFrame
			n.vars = map[string]Val{}
			base := x.evalIdent(&n, e.X.Name)
			if base.T != nil && base.A == nil {
				if pt, ok := base.T.Underlying().(*types.Pointer); ok {
					return x.fieldOfPtr(base.L[0], pt.Elem(), e.Name)
				}
			}
			return nil
		}
		// pkg.Global
		if e.X.K == "ident" {
			if _, isVar := env.vars[e.X.Name]; !isVar {
				if _, isLocal := x.lookupLocal(env, e.X.Name); !isLocal {
					if pp := x.E.importPath(env.pkgPath, e.X.Name); pp != "" {
						if p := x.E.L.Pkgs[pp]; p != nil {
							if o, ok := p.Pkg.Scope().Lookup(e.Name).(*types.Var); ok {
								return &Addr{K: AGlobal, Key: pp + "." + e.Name, T: o.Type(), contT: o.Type()}
							}
						}
						return nil
					}
				}
			}
		}
		// base as address (nested struct field) ...
		if ba := x.evalAddr(env, e.X); ba != nil {
			bt := ba.T
			if pt, ok := bt.Underlying().(*types.Pointer); ok {
				// field holds a pointer: load it and go through the heap
				pv := x.loadAddr(env.st, ba)
				return x.fieldOfPtr(pv.L[0], pt.Elem(), e.Name)
			}
			if ft, off := x.findField(bt, e.Name); ft != nil {
				na := *ba
				na.Off += off
				na.T = ft
				return &na
			}
			return nil
		}
		// ... or base as pointer value
		var base Val
		func() {
			defer func() {
				if r := recover(); r != nil {
					if _, ok := r.(evalError); !ok {
						panic(r)
					}
				}
			}()
			base = x.eval(env, e.X)
		}()
		if base.A != nil {
			if ft, off := x.findField(base.A.T, e.Name); ft != nil {
				na := *base.A
				na.Off += off
				na.T = ft
				return &na
			}
			return nil
		}
		if base.T == nil {
			return nil
		}
		if pt, ok := base.T.Underlying().(*types.Pointer); ok {
			return x.fieldOfPtr(base.L[0], pt.Elem(), e.Name)
		}
	}
	return nil
}

func (x *Exec) fieldOfPtr(ref *Term, sT types.Type, name string) *Addr {
	ft, off := x.findField(sT, name)
	if ft == nil {
		return nil
	}
	return &Addr{K: AHeap, Key: typeKey(sT), Ref: ref, Off: off, T: ft, contT: sT}
}

func (x *Exec) unifyBV(a, b Val) (Val, Val) {
	if len(a.L) != 1 || len(b.L) != 1 {
		return a, b
	}
	ta, tb := a.L[0], b.L[0]
	if ta.S.K == SBV && tb.S.K == SInt && tb.IsConst() {
		return a, Val{T: a.T, L: []*Term{BVC(tb.C, ta.S.W)}}
	}
	if tb.S.K == SBV && ta.S.K == SInt && ta.IsConst() {
		return Val{T: b.T, L: []*Term{BVC(ta.C, tb.S.W)}}, b
	}
	if ta.S.K == SBV && tb.S.K == SBV && ta.S.W != tb.S.W {
		// widen the narrower (zero/sign by type)
		if ta.S.W < tb.S.W {
			return Val{T: b.T, L: []*Term{x.widen(a, tb.S.W)}}, b
		}
		return a, Val{T: a.T, L: []*Term{x.widen(b, ta.S.W)}}
	}
	return a, b
}

func (x *Exec) widen(v Val, w int) *Term {
	t := v.L[0]
	if v.T != nil {
		if _, signed, ok := intInfo(v.T); ok && signed {
			return BVSignExt(w-t.S.W, t)
		}
	}
	return BVZeroExt(w-t.S.W, t)
}

func (x *Exec) evalBin(env *Env, e *SExpr) Val {
	switch e.Op {
	case "&&", "||", "==>", "<==>":
		a := x.evalBool(env, e.X)
		// short-circuit friendly: evaluate rhs regardless (total semantics)
		b := x.evalBool(env, e.Y)
		switch e.Op {
		case "&&":
			return mathVal(And(a, b))
		case "||":
			return mathVal(Or(a, b))
		case "==>":
			return mathVal(Implies(a, b))
		default:
			return mathVal(Eq(a, b))
		}
	}
	a, b := x.eval(env, e.X), x.eval(env, e.Y)
	if e.Op == "==" || e.Op == "!=" {
		var r *Term
		if a.Fn == "nil" || b.Fn == "nil" {
			o := a
			if a.Fn == "nil" {
				o = b
			}
			if o.A != nil {
				r = FalseT
			} else {
				r = Eq(o.L[0], IntC(0))
			}
		} else if len(a.L) == 1 && len(b.L) == 1 {
			a, b = x.unifyBV(a, b)
			if isFloat(a.T) && a.T != nil {
				r = App("f64.==", BoolS, a.L[0], b.L[0])
			} else {
				r = Eq(a.L[0], b.L[0])
			}
		} else {
			r = x.valEq(env.st, a, b)
		}
		if e.Op == "!=" {
			r = Not(r)
		}
		return mathVal(r)
	}
	a, b = x.unifyBV(a, b)
	ta, tb := a.Term(), b.Term()
	if ta.S.K == SBV {
		signed := false
		if a.T != nil {
			_, signed, _ = intInfo(a.T)
		}
		var tok = map[string]string{"+": "bvadd", "-": "bvsub", "*": "bvmul", "&": "bvand", "|": "bvor", "^": "bvxor", "<<": "bvshl"}
		if n, ok := tok[e.Op]; ok {
			return Val{T: a.T, L: []*Term{BV(n, ta, tb)}}
		}
		switch e.Op {
		case ">>":
			if signed {
				return Val{T: a.T, L: []*Term{BV("bvashr", ta, tb)}}
			}
			return Val{T: a.T, L: []*Term{BV("bvlshr", ta, tb)}}
		case "/":
			return Val{T: a.T, L: []*Term{BV(map[bool]string{true: "bvsdiv", false: "bvudiv"}[signed], ta, tb)}}
		case "%":
			return Val{T: a.T, L: []*Term{BV(map[bool]string{true: "bvsrem", false: "bvurem"}[signed], ta, tb)}}
		case "<", "<=", ">", ">=":
			n := map[string]string{"<": "lt", "<=": "le", ">": "gt", ">=": "ge"}[e.Op]
			if signed {
				return mathVal(BVCmp("bvs"+n, ta, tb))
			}
			return mathVal(BVCmp("bvu"+n, ta, tb))
		}
		x.evalFail("bv operator %s", e.Op)
	}
	switch e.Op {
	case "+":
		return mathVal(Add(ta, tb))
	case "-":
		return mathVal(Sub(ta, tb))
	case "*":
		return mathVal(Mul(ta, tb))
	case "/":
		return mathVal(Div(ta, tb))
	case "%":
		return mathVal(Mod(ta, tb))
	case "<":
		return mathVal(Lt(ta, tb))
	case "<=":
		return mathVal(Le(ta, tb))
	case ">":
		return mathVal(Gt(ta, tb))
	case ">=":
		return mathVal(Ge(ta, tb))
	case "<<":
		if tb.IsConst() {
			return mathVal(Mul(ta, BigC(Pow2(int(tb.C.Int64())))))
		}
	case ">>":
		if tb.IsConst() {
			return mathVal(Div(ta, BigC(Pow2(int(tb.C.Int64())))))
		}
	case "&":
		if tb.IsConst() {
			if k, ok := isMask(tb.C); ok {
				return mathVal(Mod(ta, BigC(Pow2(k))))
			}
		}
	}
	x.evalFail("operator %s not supported on mathematical integers in %s", e.Op, e.String())
	return Val{}
}

func (x *Exec) evalCall(env *Env, e *SExpr) Val {
	// method-style pure function: recv.name(args)
	if e.X.K == "sel" {
		recv := x.eval(env, e.X.X)
		if recv.T != nil && e.X.X.K == "ident" {
			if _, isStruct := recv.T.Underlying().(*types.Struct); isStruct {
				// a struct-valued local whose address is taken: contract methods take its address
				if p, ok := x.localPtr(env, e.X.X.Name); ok {
					recv = p
				}
			}
		}
		if dt := x.E.dynamicType(recv); dt != nil && isRefLike(dt) {
			// interface value of known dynamic type: its own abstraction function
			if pf := x.E.pureMethod(dt, e.X.Name); pf != nil && !pf.Abstract {
				cr := Val{T: dt, L: []*Term{recv.L[1]}}
				return x.applyPure(env, pf, &cr, e.Args)
			}
		}
		if pf := x.E.pureMethod(recv.T, e.X.Name); pf != nil {
			return x.applyPure(env, pf, &recv, e.Args)
		}
		x.evalFail("no pure method %s for %v", e.X.Name, recv.T)
	}
	if e.X.K != "ident" {
		x.evalFail("call of %s", e.X.String())
	}
	name := e.X.Name
	arg := func(i int) Val { return x.eval(env, e.Args[i]) }
	switch name {
	case "old":
		n := *env
		if n.cur == nil {
			n.cur = env.st
		}
		n.st = env.old
		if env.relyOld != nil {
			// names keep their current meaning, only the heap is the earlier one
			n.st = env.relyOld
			n.relyOld = nil
			return x.eval(&n, e.Args[0])
		}
		if env.fr != nil && n.localsSt == nil {
			n.localsSt = env.st // other locals keep their current value; only the heap is the old one
		}
		if env.fr != nil {
			// inside a body: old(x) of a parameter is its entry value
			n.vars = map[string]Val{}
			for k, v := range env.vars {
				n.vars[k] = v
			}
			for k, v := range env.fr.params {
				if _, shadow := n.vars[k]; !shadow {
					n.vars[k] = v
				}
			}
		}
		return x.eval(&n, e.Args[0])
	case "atlock":
		if env.atlock == nil {
			if s := x.lockSnapshot(env.st); s != nil {
				n := *env
				n.st = s
				return x.eval(&n, e.Args[0])
			}
			x.evalFail("atlock() without a lock snapshot")
		}
		n := *env
		n.st = env.atlock
		return x.eval(&n, e.Args[0])
	case "len":
		return mathVal(x.lenOf(env.st, arg(0)))
	case "cap":
		return mathVal(arg(0).L[3])
	case "min":
		a, b := arg(0).Term(), arg(1).Term()
		return mathVal(Ite(Le(a, b), a, b))
	case "max":
		a, b := arg(0).Term(), arg(1).Term()
		return mathVal(Ite(Ge(a, b), a, b))
	case "min3":
		a, b, c := arg(0).Term(), arg(1).Term(), arg(2).Term()
		m := Ite(Le(a, b), a, b)
		return mathVal(Ite(Le(m, c), m, c))
	case "abs":
		a := arg(0).Term()
		return mathVal(Ite(Ge(a, IntC(0)), a, Neg(a)))
	case "drained":
		ch := arg(0)
		if t, ok := env.st.ghost[chanKey(ch)+"!drained"]; ok {
			return mathVal(t)
		}
		return mathVal(FalseT)
	case "deref":
		// deref(p): the value of the variable the pointer p points to, in the state the expression is evaluated in
		pv := arg(0)
		a := x.ptrAddr(pv)
		if a == nil {
			x.evalFail("deref: %s is not a pointer to a variable", e.Args[0].String())
		}
		return x.loadAddr(env.st, a)
	case "ref":
		v := arg(0)
		return mathVal(v.L[0])
	case "off":
		return mathVal(arg(0).L[1])
	case "tag":
		return mathVal(arg(0).L[0])
	case "payload":
		v := arg(0)
		return mathVal(v.L[len(v.L)-1])
	case "rangepos":
		// byte position of the current element of the (innermost) range-over-string loop
		for k, t := range env.st.ghost {
			if strings.HasPrefix(k, "iter!") && strings.HasSuffix(k, "!cur") {
				_ = t
			}
		}
		if t := x.rangeGhost(env.st, "!next"); t != nil {
			return mathVal(t)
		}
		x.evalFail("rangepos(): no range-over-string iterator")
	case "seqfn":
		// seqfn(x, "f"): the mathematical sequence k -> x.f(k) of an abstract indexed
		// function of x (a reader's stream S, a writer's sink W), so that functions over
		// sequences can be applied to it.  Defined by: forall k :: seqfn(x,"f")[k] == x.f(k).
		x.E.nfresh++
		kv := Var(fmt.Sprintf("k!q%d", x.E.nfresh), IntS)
		call := &SExpr{K: "call", X: &SExpr{K: "sel", X: e.Args[0], Name: e.Args[1].Str}, Args: []*SExpr{{K: "ident", Name: "seqfn!k"}}}
		t := x.eval(env.with(map[string]Val{"seqfn!k": mathVal(kv)}), call).Term()
		if t.Op != "app" || len(t.Args) == 0 || t.Args[len(t.Args)-1] != kv {
			x.evalFail("seqfn: %s is not an abstract indexed function", e.Args[1].Str)
		}
		arr := App("seq."+t.Name, ArrS(IntS, t.S), t.Args[:len(t.Args)-1]...)
		key := arr.String()
		cst := env.cur
		if cst == nil {
			cst = env.st
		}
		if !hasFreeBinder(arr) && !cst.defined[key] {
			if cst.defined == nil {
				cst.defined = map[string]bool{}
			}
			cst.defined[key] = true
			cst.assume(Forall([]*Term{kv}, Eq(Select(arr, kv), t)))
		}
		return mathVal(arr)
	case "store":
		// store(seq, i, v): the mathematical sequence seq updated at i
		return mathVal(Store(arg(0).L[0], arg(1).Term(), arg(2).Term()))
	case "strid":
		// strid(s): an integer identity of the string value s (equal values of the same
		// origin have equal identities; nothing else is assumed)
		return mathVal(x.mapKeyTerm(env.st, arg(0)))
	case "visited":
		// visited(k): the (only) range-over-map loop of the function has produced key k
		var vis *Term
		n := 0
		for k, t := range env.st.ghost {
			if strings.HasPrefix(k, "iter!") && strings.HasSuffix(k, "!vis") {
				vis = t
				n++
			}
		}
		if n != 1 {
			x.evalFail("visited(): the function needs exactly one range-over-map loop in scope (found %d)", n)
		}
		return mathVal(Select(vis, arg(0).Term()))
	case "ghost":
		// ghost("name"): current value of an engine ghost variable
		key := e.Args[0].Str
		if t, ok := env.st.ghost[key]; ok {
			return mathVal(t)
		}
		return mathVal(FalseT)
	case "signalled", "held", "waited", "broadcast":
		return x.monitorPred(env, name, e.Args)
	case "apply":
		// apply(f, args...): the result of calling the pure function value f
		fv := arg(0)
		sig, ok := fv.T.Underlying().(*types.Signature)
		if !ok || len(fv.L) != 1 {
			x.evalFail("apply: %s is not a function value", e.Args[0].String())
		}
		var av []Val
		for i := 1; i < len(e.Args); i++ {
			av = append(av, arg(i))
		}
		return x.fnApply(fv, sig, av)
	case "fresh":
		v := arg(0)
		r := v.L[0]
		if v.T != nil {
			if _, isI := v.T.Underlying().(*types.Interface); isI {
				r = v.L[1]
			}
		}
		return mathVal(Ge(r, Var("brk@0", IntS)))
	case "typeis":
		v := arg(0)
		tn := e.Args[1].Str
		if tn == "" {
			tn = e.Args[1].String()
		}
		return mathVal(Eq(v.L[0], x.E.typeTagByName(env.pkgPath, tn)))
	case "typehas":
		// typehas(v, "text"): the dynamic type of the interface value v is statically known here and
		// its written form mentions text (for anonymous struct types that cannot be named)
		v := arg(0)
		dt := x.E.dynamicType(v)
		if dt == nil {
			x.evalFail("typehas: the dynamic type of %s is not known at this point", e.Args[0].String())
		}
		return mathVal(BoolC(strings.Contains(dt.String(), e.Args[1].Str)))
	case "unbox":
		// unbox(v, "T"): the value of dynamic type T held by the interface value v
		v := arg(0)
		t := x.E.typeByName(env.pkgPath, e.Args[1].Str)
		if t == nil {
			x.evalFail("unbox: unknown type %q", e.Args[1].Str)
		}
		if isRefLike(t) {
			return Val{T: t, L: []*Term{v.L[1]}}
		}
		a := &Addr{K: AHeap, Key: "box:" + typeKey(t), Ref: v.L[1], T: t, contT: t}
		return x.loadAddr(env.st, a)
	case "same":
		a, b := arg(0), arg(1)
		if len(a.L) != len(b.L) {
			x.evalFail("same(): different shapes")
		}
		var es []*Term
		for i := range a.L {
			es = append(es, Eq(a.L[i], b.L[i]))
		}
		return mathVal(And(es...))
	case "string":
		v := arg(0)
		if isString(v.T) {
			return v
		}
		// (in specifications only the identity of the string matters; its
		// content axioms are not added to the path condition)
		_, m := x.byteMem(env.st)
		return Val{T: types.Typ[types.String], L: []*Term{App("str.of", IntS, Select(m, v.L[0]), v.L[1], v.L[2]), x.idxConst(0), v.L[2]}}
	case "decimal":
		// canonical decimal text of an integer: an abstract string determined by the number
		v := arg(0).Term()
		ln := App("dec.len", IntS, v)
		if !hasFreeBinder(ln) {
			// the decimal text of an integer has at least one character
			st := env.cur
			if st == nil {
				st = env.st
			}
			st.assume(Le(IntC(1), ln))
		}
		return Val{T: types.Typ[types.String], L: []*Term{App("dec.str", IntS, v), x.idxConst(0), ln}}
	case "mapHas", "mapGet":
		m := arg(0)
		mt, ok := m.T.Underlying().(*types.Map)
		if !ok {
			x.evalFail("%s on non-map", name)
		}
		val, present := x.mapRead(env.st, m, mt, arg(1))
		if name == "mapHas" {
			return mathVal(present)
		}
		return val
	case "bytesEq":
		a, b := arg(0), arg(1)
		return mathVal(x.seqEq(env.st, a, b))
	case "seqof":
		return x.seqOf(env.st, arg(0))
	}
	// conversions to Go integer types: Go semantics (wrap)
	if b := basicByName(name); b != nil && len(e.Args) == 1 {
		v := arg(0)
		t := v.Term()
		if _, _, ok := intInfo(b); ok {
			if t.S.K == SBV {
				if v.T == nil {
					x.evalFail("conversion of untyped bv")
				}
				return Val{T: b, L: []*Term{x.convInt(t, v.T, b)}}
			}
			if x.tc.bv && t.IsConst() {
				w, _, _ := intInfo(b)
				return Val{T: b, L: []*Term{BVC(t.C, w)}}
			}
			if v.T != nil {
				return Val{T: b, L: []*Term{x.convInt(t, v.T, b)}}
			}
			return Val{T: b, L: []*Term{wrapMod(t, b)}}
		}
	}
	if name == "int" || name == "uint" {
		return arg(0)
	}
	if pf := x.E.pures[name]; pf != nil {
		return x.applyPure(env, pf, nil, e.Args)
	}
	if lm := x.E.lemmas[name]; lm != nil {
		return x.applyLemma(env, lm, e.Args)
	}
	x.evalFail("unknown spec function %q", name)
	return Val{}
}

func basicByName(n string) *types.Basic {
	switch n {
	case "byte":
		return types.Typ[types.Uint8]
	case "rune":
		return types.Typ[types.Int32]
	}
	for _, b := range types.Typ {
		if b.Name() == n && b.Info()&types.IsInteger != 0 {
			return b
		}
	}
	return nil
}

// seqEq: element-wise equality of two byte sequences (slices or strings).
func (x *Exec) seqEq(st *State, a, b Val) *Term {
	k := x.E.fresh("k", IntS)
	ea := x.indexVal(st, a, k).Term()
	eb := x.indexVal(st, b, k).Term()
	return And(Eq(a.L[2], b.L[2]), Forall([]*Term{k}, Implies(And(Le(IntC(0), k), Lt(k, a.L[2])), Eq(ea, eb))))
}

// seqOf: the content of a byte slice/string as a mathematical sequence
// (array) re-based at 0; only exact when off == 0 (asserted as hypothesis
// through a defining quantifier otherwise).
func (x *Exec) seqOf(st *State, v Val) Val {
	var inner *Term
	if isString(v.T) {
		inner = Select(x.strMem(st), v.L[0])
	} else {
		sl := v.T.Underlying().(*types.Slice)
		inner = Select(x.heapArr(st, hkey("M", typeKey(sl.Elem()), 0), x.memSort(x.tc.leaves(sl.Elem())[0])), v.L[0])
	}
	if v.L[1].IsConst() && v.L[1].C.Sign() == 0 {
		return Val{L: []*Term{inner}}
	}
	return Val{L: []*Term{App("seq.shift", inner.S, inner, v.L[1])}}
}

// applyPure: non-recursive pure functions are expanded; recursive and
// abstract ones become uninterpreted applications (the unfolding axiom is
// added by the engine for every application that occurs).
func (x *Exec) applyPure(env *Env, pf *PureFunc, recv *Val, args []*SExpr) Val {
	if env.depth > 40 {
		x.evalFail("pure function expansion too deep at %s", pf.Name)
	}
	vars := map[string]Val{}
	var argVals []Val
	if pf.Recv != nil {
		if recv == nil {
			x.evalFail("pure method %s needs a receiver", pf.Name)
		}
		vars[pf.Recv.Name] = *recv
		argVals = append(argVals, *recv)
	}
	if len(args) != len(pf.Params) {
		x.evalFail("pure function %s: %d arguments, want %d", pf.Name, len(args), len(pf.Params))
	}
	for i, p := range pf.Params {
		v := x.eval(env, args[i])
		if x.tc.bv && len(v.L) == 1 && v.L[0].S.K == SInt && v.L[0].IsConst() {
			if s, gt := x.sortOfBinder(p.Type); s.K == SBV {
				v = Val{T: gt, L: []*Term{BVC(v.L[0].C, s.W)}}
			}
		}
		vars[p.Name] = v
		argVals = append(argVals, v)
	}
	opaque := pf.BVOnly && !x.tc.bv
	if pf.Opaque {
		opaque = true
		if x.fc != nil {
			for _, r := range x.fc.Reveals {
				if r == pf.Name {
					opaque = false
				}
			}
		}
	}
	if pf.Abstract || pf.Rec || opaque {
		var targs []*Term
		for _, v := range argVals {
			if v.T != nil {
				if _, isI := v.T.Underlying().(*types.Interface); isI && pf.Recv != nil && len(targs) == 0 {
					// abstract state of an interface value: (ref, version)
					if pf.Stable {
						targs = append(targs, v.L[1])
					} else {
						targs = append(targs, v.L[1], x.absVersion(env.st, v.L[1]))
					}
					continue
				}
				if _, isP := v.T.Underlying().(*types.Pointer); isP && pf.Abstract && pf.Recv != nil && len(targs) == 0 {
					if pf.Stable {
						targs = append(targs, v.L[0])
					} else {
						targs = append(targs, v.L[0], x.absVersion(env.st, v.L[0]))
					}
					continue
				}
			}
			targs = append(targs, v.L...)
		}
		s, _ := x.sortOfBinder(pf.Ret)
		name := "pure." + pf.Name
		if pf.Recv != nil {
			name = "pure." + strings.TrimPrefix(pf.Recv.Type, "*") + "." + pf.Name
		}
		if pf.Role {
			name = "pure.role." + pf.Name
		}
		if x.tc.bv {
			name = "pure.bv." + strings.TrimPrefix(name, "pure.")
		}
		app := App(name, s, targs...)
		if pf.Rec && !opaque {
			x.E.noteRecApp(x, pf, app, argVals)
		}
		return mathVal(app)
	}
	n := env.with(vars)
	n.depth = env.depth + 1
	n.fr = nil
	return x.eval(n, pf.Body)
}

// applyLemma instantiates a proved lemma: (requires ==> ensures)[args].
func (x *Exec) applyLemma(env *Env, lm *Lemma, args []*SExpr) Val {
	x.E.noteLemmaUse(lm)
	vars := map[string]Val{}
	if len(args) != len(lm.Params) {
		x.evalFail("lemma %s: %d arguments, want %d", lm.Name, len(args), len(lm.Params))
	}
	for i, p := range lm.Params {
		vars[p.Name] = x.eval(env, args[i])
	}
	n := &Env{x: x, st: env.st, old: env.st, vars: vars, pkgPath: env.pkgPath, depth: env.depth + 1}
	var req, ens []*Term
	for _, r := range lm.Requires {
		req = append(req, x.evalBool(n, r.E))
	}
	for _, r := range lm.Ensures {
		ens = append(ens, x.evalBool(n, r.E))
	}
	return mathVal(Implies(And(req...), And(ens...)))
}
