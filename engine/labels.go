package main

// Security-label contracts (property C19): fields declared `secret` must not
// reach a `sink`.  Labels are checked modularly over the SSA of every function
// of the loaded repository packages: a secret is a value read from a secret
// field (or a parameter that receives one at some call site - the label set is
// closed under the call graph), a carrier is a value whose static type can
// reach a secret field.  One obligation per sink call site, back end "labels".

import (
	"fmt"
	"go/ast"
	"go/parser"
	"go/printer"
	"go/token"
	"go/types"
	"path/filepath"
	"sort"
	"strings"

	"golang.org/x/tools/go/ssa"
)

type labelCfg struct {
	secrets map[string]bool // "Type.Field"
	sinks   []string        // glob patterns over full function names
	masked  []string        // functions whose result is a masked carrier
}

func (E *Engine) labelConfig() *labelCfg {
	lc := &labelCfg{secrets: map[string]bool{}}
	for _, cf := range E.files {
		for _, s := range cf.Secrets {
			lc.secrets[s] = true
		}
		for _, s := range cf.Sinks {
			if strings.HasPrefix(s, "masked:") {
				lc.masked = append(lc.masked, strings.TrimPrefix(s, "masked:"))
			} else {
				lc.sinks = append(lc.sinks, s)
			}
		}
	}
	return lc
}

func (lc *labelCfg) isSink(name string) bool {
	for _, p := range lc.sinks {
		if globMatch(p, name) {
			return true
		}
	}
	return false
}

func (lc *labelCfg) secretField(t types.Type, idx int) bool {
	t = derefT(t)
	n, ok := t.(*types.Named)
	if !ok {
		return false
	}
	st, ok := n.Underlying().(*types.Struct)
	if !ok || idx >= st.NumFields() {
		return false
	}
	return lc.secrets[n.Obj().Name()+"."+st.Field(idx).Name()]
}

// carries: can a value of type t reach a secret field (through pointers, slices, maps, struct fields)?
func (lc *labelCfg) carries(t types.Type, seen map[string]bool) bool {
	k := typeKey(t)
	if seen[k] {
		return false
	}
	seen[k] = true
	switch u := t.Underlying().(type) {
	case *types.Pointer:
		return lc.carries(u.Elem(), seen)
	case *types.Slice:
		return lc.carries(u.Elem(), seen)
	case *types.Array:
		return lc.carries(u.Elem(), seen)
	case *types.Map:
		return lc.carries(u.Elem(), seen) || lc.carries(u.Key(), seen)
	case *types.Struct:
		n, _ := t.(*types.Named)
		for i := 0; i < u.NumFields(); i++ {
			if n != nil && lc.secrets[n.Obj().Name()+"."+u.Field(i).Name()] {
				return true
			}
			if lc.carries(u.Field(i).Type(), seen) {
				return true
			}
		}
	}
	return false
}

type labelState struct {
	lc       *labelCfg
	paramTnt map[*ssa.Function]map[int]bool
	changed  bool
}

func isStringish(t types.Type) bool {
	switch u := t.Underlying().(type) {
	case *types.Basic:
		return u.Info()&types.IsString != 0
	case *types.Slice:
		b, ok := u.Elem().Underlying().(*types.Basic)
		return ok && b.Kind() == types.Uint8
	case *types.Interface:
		return true
	}
	return false
}

// analyse computes the tainted values of one function.
func (ls *labelState) analyse(f *ssa.Function) map[ssa.Value]bool {
	t := map[ssa.Value]bool{}
	for i, p := range f.Params {
		if ls.paramTnt[f][i] {
			t[p] = true
		}
		if strings.Contains(strings.ToLower(p.Name()), "passw") && isStringish(p.Type()) {
			t[p] = true
		}
	}
	secretAddr := map[ssa.Value]bool{}
	for iter := 0; iter < 12; iter++ {
		ch := false
		mark := func(v ssa.Value) {
			if !t[v] {
				t[v] = true
				ch = true
			}
		}
		for _, b := range f.Blocks {
			for _, in := range b.Instrs {
				switch v := in.(type) {
				case *ssa.FieldAddr:
					if ls.lc.secretField(v.X.Type(), v.Field) {
						secretAddr[v] = true
					}
				case *ssa.Field:
					if ls.lc.secretField(v.X.Type(), v.Field) {
						mark(v)
					}
				case *ssa.UnOp:
					if secretAddr[v.X] || t[v.X] {
						mark(v)
					}
				case *ssa.Store:
					if t[v.Val] {
						// the location becomes tainted (allocs, index addrs of packed variadics)
						switch a := v.Addr.(type) {
						case *ssa.Alloc:
							mark(a)
						case *ssa.IndexAddr:
							mark(a.X)
							if s, ok := a.X.(*ssa.Alloc); ok {
								mark(s)
							}
						case *ssa.FieldAddr:
							// storing a secret into a field of a local struct: the struct carries it (type check covers declared fields)
						}
					}
				case *ssa.Phi:
					for _, e := range v.Edges {
						if t[e] {
							mark(v)
						}
					}
				case *ssa.Convert:
					if t[v.X] {
						mark(v)
					}
				case *ssa.ChangeType:
					if t[v.X] {
						mark(v)
					}
				case *ssa.MakeInterface:
					if t[v.X] {
						mark(v)
					}
				case *ssa.ChangeInterface:
					if t[v.X] {
						mark(v)
					}
				case *ssa.Slice:
					if t[v.X] {
						mark(v)
					}
				case *ssa.BinOp:
					if (t[v.X] || t[v.Y]) && isStringish(v.Type()) {
						mark(v)
					}
				case *ssa.Extract:
					if t[v.Tuple] {
						mark(v)
					}
				case *ssa.Index:
					if t[v.X] {
						mark(v)
					}
				case *ssa.IndexAddr:
					if t[v.X] {
						mark(v)
					}
				case *ssa.Lookup:
					if t[v.X] {
						mark(v)
					}
				case *ssa.Call:
					callee := v.Call.StaticCallee()
					anyT := false
					for _, a := range v.Call.Args {
						if t[a] {
							anyT = true
						}
					}
					if !anyT {
						break
					}
					if callee != nil && callee.Blocks != nil && strings.HasPrefix(fnPkgPath(callee), repoMod) {
						// label closure: the callee's parameter is a secret too
						for i, a := range v.Call.Args {
							if t[a] && i < len(callee.Params) {
								if ls.paramTnt[callee] == nil {
									ls.paramTnt[callee] = map[int]bool{}
								}
								if !ls.paramTnt[callee][i] {
									ls.paramTnt[callee][i] = true
									ls.changed = true
								}
							}
						}
					} else if callee != nil && (isStringish(v.Type()) || strings.Contains(v.Type().String(), "error")) {
						// library functions building strings/errors from a secret (Sprintf, Errorf, Join, ...)
						switch fnPkgPath(callee) {
						case "fmt", "strings", "bytes", "errors", "strconv", repoMod + "/pkg/libs/errors":
							mark(v)
						}
					}
				}
			}
		}
		if !ch {
			break
		}
	}
	return t
}

// maskedOrigin: is v (through loads, copies) the result of a masking function?
func (ls *labelState) maskedOrigin(v ssa.Value, depth int) bool {
	if depth > 6 {
		return false
	}
	switch x := v.(type) {
	case *ssa.Call:
		if c := x.Call.StaticCallee(); c != nil {
			for _, m := range ls.lc.masked {
				if globMatch(m, fullName(c)) {
					return true
				}
			}
		}
	case *ssa.MakeInterface:
		return ls.maskedOrigin(x.X, depth+1)
	case *ssa.UnOp:
		if a, ok := x.X.(*ssa.Alloc); ok {
			// a local initialised only from a masked origin
			ok2 := false
			for _, r := range *a.Referrers() {
				if st, isSt := r.(*ssa.Store); isSt && st.Addr == a {
					if !ls.maskedOrigin(st.Val, depth+1) {
						return false
					}
					ok2 = true
				}
			}
			return ok2
		}
	}
	return false
}

// VerifyLabels runs the checker over every function of the repository packages.
func (E *Engine) VerifyLabels() {
	lc := E.labelConfig()
	if len(lc.secrets) == 0 || len(lc.sinks) == 0 {
		E.configError("labels: no secret/sink declarations loaded")
		return
	}
	ls := &labelState{lc: lc, paramTnt: map[*ssa.Function]map[int]bool{}}
	var funcs []*ssa.Function
	for path, p := range E.L.Pkgs {
		if !strings.HasPrefix(path, repoMod) || strings.HasSuffix(path, "/pkg/libs/log") {
			continue
		}
		funcs = append(funcs, allFunctions(E.L.Prog, p)...)
	}
	sort.Slice(funcs, func(i, j int) bool { return funcs[i].Pos() < funcs[j].Pos() })
	// fixpoint of the parameter labels
	for round := 0; round < 8; round++ {
		ls.changed = false
		for _, f := range funcs {
			ls.analyse(f)
		}
		if !ls.changed {
			break
		}
	}
	nsinks := 0
	for _, f := range funcs {
		taint := ls.analyse(f)
		for _, b := range f.Blocks {
			for _, in := range b.Instrs {
				call, ok := in.(*ssa.Call)
				if !ok {
					continue
				}
				callee := call.Call.StaticCallee()
				if callee == nil || !lc.isSink(fullName(callee)) {
					continue
				}
				nsinks++
				pos := E.L.Fset.Position(call.Pos())
				where := fmt.Sprintf("%s:%d", strings.TrimPrefix(pos.Filename, repoSrc+"/"), pos.Line)
				var bad []string
				for _, a := range call.Call.Args {
					for _, leaf := range variadicLeaves(a) {
						inner := leaf
						if mi, ok := leaf.(*ssa.MakeInterface); ok {
							inner = mi.X
						}
						if taint[leaf] || taint[inner] {
							bad = append(bad, "secret value "+inner.Name()+" ("+inner.Type().String()+")")
							continue
						}
						if lc.carries(inner.Type(), map[string]bool{}) && !ls.maskedOrigin(inner, 0) {
							bad = append(bad, "value "+inner.Name()+" of type "+inner.Type().String()+" can reach a secret field and is not masked")
						}
					}
				}
				name := fmt.Sprintf("%s.%s#label:%s@%s", shortPkg(fnPkgPath(f)), relName(f), shortName(fullName(callee)), where)
				if _, dup := E.obligs[name]; dup {
					name += fmt.Sprintf("#%d", nsinks)
				}
				o := &Oblig{Name: name, Fn: relName(f), Kind: "label", Label: shortName(fullName(callee)), Where: where,
					Src: "no argument of this sink call is a secret or an unmasked carrier of a secret"}
				if len(bad) == 0 {
					o.Queries = append(o.Queries, &Query{Goal: TrueT, Result: "unsat", Solver: "labels", Path: where})
				} else {
					o.Src += ": " + strings.Join(bad, "; ")
					o.Queries = append(o.Queries, &Query{Goal: FalseT, Result: "error", Solver: "labels", Output: strings.Join(bad, "; "), Path: where})
				}
				E.obligs[name] = o
				E.order = append(E.order, name)
			}
		}
	}
	nsyn := E.syntacticMainCheck()
	if E.extraEvidence == nil {
		E.extraEvidence = map[string]interface{}{}
	}
	E.extraEvidence["main_package_syntactic_sink_calls"] = nsyn
	var labelled []string
	for f, ps := range ls.paramTnt {
		for i := range ps {
			if i < len(f.Params) {
				labelled = append(labelled, relName(f)+"("+f.Params[i].Name()+")")
			}
		}
	}
	sort.Strings(labelled)
	E.extraEvidence["label_checker"] = map[string]interface{}{"functions_scanned": len(funcs), "sink_call_sites": nsinks,
		"secret_fields": len(lc.secrets), "parameters_labelled_secret_by_closure": labelled}
}

// variadicLeaves: the elements of a packed variadic argument (a slice built
// from a local array in the caller), or the value itself.
func variadicLeaves(v ssa.Value) []ssa.Value {
	sl, ok := v.(*ssa.Slice)
	if !ok {
		return []ssa.Value{v}
	}
	al, ok := sl.X.(*ssa.Alloc)
	if !ok {
		return []ssa.Value{v}
	}
	var out []ssa.Value
	for _, r := range *al.Referrers() {
		if ia, ok := r.(*ssa.IndexAddr); ok {
			for _, r2 := range *ia.Referrers() {
				if st, ok := r2.(*ssa.Store); ok && st.Addr == ia {
					out = append(out, st.Val)
				}
			}
		}
	}
	if len(out) == 0 {
		return []ssa.Value{v}
	}
	return out
}

// syntacticMainCheck: redis-shake/main does not type-check on the pinned tree,
// so its sink calls are checked on the syntax only: an argument that mentions
// conf.Options (the unmasked configuration) in a log/print/marshal call is a
// violation; conf.GetSafeOptions() is fine.  Reported as syntactic, not as a
// label proof.
func (E *Engine) syntacticMainCheck() int {
	dir := filepath.Join(repoSrc, "redis-shake", "main")
	files, _ := filepath.Glob(filepath.Join(dir, "*.go"))
	n := 0
	for _, f := range files {
		if strings.HasSuffix(f, "_test.go") {
			continue
		}
		fset := token.NewFileSet()
		af, err := parser.ParseFile(fset, f, nil, parser.SkipObjectResolution)
		if err != nil {
			continue
		}
		ast.Inspect(af, func(nd ast.Node) bool {
			call, ok := nd.(*ast.CallExpr)
			if !ok {
				return true
			}
			sel, ok := call.Fun.(*ast.SelectorExpr)
			if !ok {
				return true
			}
			pk, _ := sel.X.(*ast.Ident)
			if pk == nil {
				return true
			}
			isSink := pk.Name == "log" || (pk.Name == "json" && strings.HasPrefix(sel.Sel.Name, "Marshal")) ||
				(pk.Name == "fmt" && (strings.HasPrefix(sel.Sel.Name, "Print") || strings.HasPrefix(sel.Sel.Name, "Fprint")))
			if !isSink {
				return true
			}
			n++
			bad := ""
			for _, a := range call.Args {
				ast.Inspect(a, func(x ast.Node) bool {
					if s2, ok := x.(*ast.SelectorExpr); ok {
						if id, ok := s2.X.(*ast.Ident); ok && id.Name == "conf" && s2.Sel.Name == "Options" {
							// conf.Options.Field of a non-secret field is fine; the bare struct or a password field is not
							bad = "argument mentions conf.Options"
						}
					}
					return true
				})
				// conf.Options.X where X is not a password field is allowed
				if bad != "" {
					src := exprString(fset, a)
					if strings.Contains(src, "conf.Options.") && !strings.Contains(strings.ToLower(src), "password") {
						bad = ""
					}
				}
			}
			pos := fset.Position(call.Pos())
			where := fmt.Sprintf("redis-shake/main/%s:%d", filepath.Base(pos.Filename), pos.Line)
			name := fmt.Sprintf("redis-shake/main#label-syntactic:%s.%s@%s", pk.Name, sel.Sel.Name, where)
			if _, dup := E.obligs[name]; dup {
				return true
			}
			o := &Oblig{Name: name, Fn: "main", Kind: "label-syntactic", Label: pk.Name + "." + sel.Sel.Name, Where: where,
				Src: "syntactic check (package does not type-check): no argument mentions the unmasked configuration"}
			if bad == "" {
				o.Queries = append(o.Queries, &Query{Goal: TrueT, Result: "unsat", Solver: "syntax", Path: where})
			} else {
				o.Queries = append(o.Queries, &Query{Goal: FalseT, Result: "error", Solver: "syntax", Output: bad, Path: where})
			}
			E.obligs[name] = o
			E.order = append(E.order, name)
			return true
		})
	}
	return n
}

func exprString(fset *token.FileSet, e ast.Expr) string {
	var sb strings.Builder
	printer.Fprint(&sb, fset, e)
	return sb.String()
}
