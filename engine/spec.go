package main

// Contract language: file structure and expression parser.

import (
	"fmt"
	"math/big"
	"os"
	"strconv"
	"strings"
	"unicode"
)

type SExpr struct {
	K     string // ident int str char bin un call index slice sel forall exists ite star
	Op    string
	Name  string
	X, Y  *SExpr
	Z     *SExpr
	Args  []*SExpr
	Binds []SBind
	Int   *big.Int
	Str   string
	Src   string
}

type SBind struct{ Name, Type string }

type Clause struct {
	Label string
	E     *SExpr
	Src   string
	File  string
	Line  int
}

// InstHint: "inst m = expr": when proving this function's obligations, expr
// (whose otherwise unknown identifiers denote the goal's skolem constants of
// that name) is offered as an instance for hypothesis binders named m.
type InstHint struct {
	Binder string
	E      *SExpr
	Src    string
}

// SharedSpec: a heap location other goroutines may write while this function
// runs: its value is unknown again at every loop head, subject to the rely
// condition (relating old(...) = value before to the new value).
type SharedSpec struct {
	Loc  *SExpr
	Rely *SExpr
	Src  string
}

// ZeroFact: an assumed property of the zero value of an external type (e.g. an empty bytes.Buffer has written nothing).
type ZeroFact struct {
	Var, Type string
	E         *SExpr
}

type LoopSpec struct {
	Invariants []Clause
	Decreases  *Clause
}

type AtCall struct {
	Ordinal int
	Callee  string
	Kind    string // assert (before the call) | set (ghost update after the call)
	C       Clause
	Ghost   string // for set: the ghost variable assigned
}

type FuncContract struct {
	Name        string
	File        string
	Line        int
	Requires    []Clause
	Exits       []Clause // checked at every normal return; may name locals (their final values); never assumed by callers
	PostAssumes []Clause // unchecked facts about the result, assumed at call sites only (a partly trusted contract); always reported
	Assumes     []Clause // unchecked assumptions at entry (machine-arithmetic bounds); never imposed on callers, always reported
	Ensures     []Clause
	Modifies    []*SExpr
	HasMod      bool
	Loops       map[int]*LoopSpec
	InlLoops    map[string]*LoopSpec // "callee#ord": extra invariants for loops of inlined callees
	Asserts     []AtCall
	Uses        []Clause   // lemma instantiations (only proved lemmas may be used)
	Insts       []InstHint // instantiation hints: candidate terms for quantifier binders
	Inline      bool
	BV          bool
	Recovers    bool
	Diverges    bool
	Trusted     bool // contract is assumed, body not verified (external or listed)
	NoSafe      bool
	Ghost       []SBind
	Cases       []Clause // named case split: each obligation is proved per case
	Flags       map[string]string
	attached    bool
	InlineAll   []string
	Reveals     []string
	Shared      []SharedSpec
}

type PureFunc struct {
	Name     string
	Recv     *SBind
	Params   []SBind
	Ret      string
	Body     *SExpr
	Src      string
	Rec      bool
	Abstract bool // no body: uninterpreted
	Stable   bool // abstract function that does not depend on the object's state version
	BVOnly   bool // body is bit-level: outside bit-vector mode the function is opaque
	Role     bool // abstract function shared by every receiver type that declares it (same uninterpreted symbol)
	Opaque   bool // definition hidden (uninterpreted) unless the function under verification reveals it
	File     string
	Line     int
}

type Lemma struct {
	Name     string
	Params   []SBind
	Requires []Clause
	Ensures  []Clause
	Uses     []Clause
	BV       bool
	File     string
	Line     int
}

type Monitor struct {
	Type      string // e.g. *pipe
	Mutex     string // field name
	Protects  []string
	Invariant []Clause
	File      string
	Line      int
}

type ContractFile struct {
	Path      string
	Funcs     []*FuncContract
	Pures     []*PureFunc
	Lemmas    []*Lemma
	Monitors  []*Monitor
	Consts    map[string]*SExpr
	Secrets   []string
	Sinks     []string
	Raw       []string
	ZeroFacts []ZeroFact
	WriteSets []string
	GhostVars map[string]string
	Tables    map[string]*OracleTable
	RowChecks []*RowCheck
}

var clauseKeywords = map[string]bool{
	"func": true, "pure": true, "lemma": true, "requires": true, "assumes": true, "ensures": true, "modifies": true,
	"loop": true, "inline": true, "mode": true, "recovers": true, "diverges": true, "trusted": true,
	"nosafe": true, "use": true, "monitor": true, "ghost": true, "case": true, "secret": true,
	"sink": true, "flag": true, "const": true, "protects": true, "invariant": true, "abstract": true,
	"inlinecalls": true, "inst": true, "reveal": true, "shared": true, "ghostvar": true, "zerofact": true, "rows": true, "oracle": true, "row": true, "writeset": true, "exit": true, "postassume": true,
}

func firstWord(s string) string {
	s = strings.TrimSpace(s)
	i := strings.IndexFunc(s, func(r rune) bool { return !(unicode.IsLetter(r) || r == '_') })
	if i < 0 {
		return s
	}
	return s[:i]
}

// ParseContractFile reads either a Go file (lines starting with //@) or a
// .spec file (all non-comment lines).
func ParseContractFile(path string) (*ContractFile, error) {
	data, err := os.ReadFile(path)
	if err != nil {
		return nil, err
	}
	isGo := strings.HasSuffix(path, ".go")
	type ln struct {
		s string
		n int
	}
	var lines []ln
	for i, l := range strings.Split(string(data), "\n") {
		t := strings.TrimSpace(l)
		if isGo {
			if !strings.HasPrefix(t, "//@") {
				continue
			}
			t = strings.TrimSpace(strings.TrimPrefix(t, "//@"))
		}
		if j := strings.Index(t, " //"); j >= 0 {
			t = strings.TrimSpace(t[:j])
		}
		if t == "" || strings.HasPrefix(t, "//") || strings.HasPrefix(t, "#") {
			continue
		}
		lines = append(lines, ln{t, i + 1})
	}
	// join continuation lines
	var joined []ln
	for _, l := range lines {
		w := firstWord(l.s)
		isKw := clauseKeywords[w]
		if w == "at" && strings.HasPrefix(l.s, "at call") {
			isKw = true
		}
		if isKw || len(joined) == 0 {
			joined = append(joined, l)
		} else {
			joined[len(joined)-1].s += " " + l.s
		}
	}
	cf := &ContractFile{Path: path, Consts: map[string]*SExpr{}, Tables: map[string]*OracleTable{}}
	var curR *RowCheck
	var curF *FuncContract
	var curL *Lemma
	var curM *Monitor
	fail := func(l ln, f string, a ...interface{}) error {
		return fmt.Errorf("%s:%d: %s", path, l.n, fmt.Sprintf(f, a...))
	}
	parseClause := func(l ln, rest string) (Clause, error) {
		label := ""
		r := strings.TrimSpace(rest)
		if i := strings.Index(r, ":"); i > 0 && isLabel(r[:i]) && !strings.HasPrefix(r[i:], "::") {
			label = r[:i]
			r = strings.TrimSpace(r[i+1:])
		}
		e, err := ParseExpr(r)
		if err != nil {
			return Clause{}, fail(l, "%v in %q", err, r)
		}
		return Clause{Label: label, E: e, Src: r, File: path, Line: l.n}, nil
	}
	for _, l := range joined {
		w := firstWord(l.s)
		rest := strings.TrimSpace(l.s[len(w):])
		switch {
		case w == "func":
			curR = nil
			curF = &FuncContract{Name: rest, File: path, Line: l.n, Loops: map[int]*LoopSpec{}, Flags: map[string]string{}}
			cf.Funcs = append(cf.Funcs, curF)
			curL, curM = nil, nil
		case w == "pure" || w == "abstract":
			if w == "pure" && strings.HasPrefix(rest, "stable ") {
				// a concrete, state-independent property of a type (not part of its abstraction)
			}
			stable, bvOnly := false, false
			if strings.HasPrefix(rest, "stable ") {
				stable = true
				rest = strings.TrimSpace(strings.TrimPrefix(rest, "stable "))
			}
			if strings.HasPrefix(rest, "bv ") {
				bvOnly = true
				rest = strings.TrimSpace(strings.TrimPrefix(rest, "bv "))
			}
			role := false
			if strings.HasPrefix(rest, "role ") {
				role = true
				rest = strings.TrimSpace(strings.TrimPrefix(rest, "role "))
			}
			opaque := false
			if strings.HasPrefix(rest, "opaque ") {
				opaque = true
				rest = strings.TrimSpace(strings.TrimPrefix(rest, "opaque "))
			}
			pf, err := parsePure(strings.TrimSpace(strings.TrimPrefix(rest, "func")))
			if err != nil {
				return nil, fail(l, "%v", err)
			}
			pf.File, pf.Line = path, l.n
			pf.Stable = stable
			pf.BVOnly = bvOnly
			pf.Opaque = opaque
			pf.Role = role
			if w == "abstract" {
				pf.Abstract = true
			}
			cf.Pures = append(cf.Pures, pf)
		case w == "lemma":
			name, params, _, err := parseSig(rest)
			if err != nil {
				return nil, fail(l, "%v", err)
			}
			curR = nil
			curL = &Lemma{Name: name, Params: params, File: path, Line: l.n}
			cf.Lemmas = append(cf.Lemmas, curL)
			curF, curM = nil, nil
		case w == "rows":
			// rows GLOBAL oracle TABLE
			f := strings.Fields(rest)
			if len(f) != 3 || f[1] != "oracle" {
				return nil, fail(l, "rows GLOBAL oracle TABLE")
			}
			curR = &RowCheck{Global: f[0], Oracle: f[2], File: path, Line: l.n}
			cf.RowChecks = append(cf.RowChecks, curR)
			curF, curL, curM = nil, nil, nil
		case w == "oracle":
			// oracle NAME fields a b c
			f := strings.Fields(rest)
			if len(f) < 3 || f[1] != "fields" {
				return nil, fail(l, "oracle NAME fields f1 f2 ...")
			}
			cf.Tables[f[0]] = &OracleTable{Name: f[0], Fields: f[2:], Rows: map[string][]*big.Int{}, File: path}
		case w == "row":
			// row TABLE "key" v1 v2 ...
			f := strings.Fields(rest)
			if len(f) < 2 {
				return nil, fail(l, "row TABLE \"key\" values...")
			}
			t := cf.Tables[f[0]]
			if t == nil || len(f)-2 != len(t.Fields) {
				return nil, fail(l, "row: unknown table or wrong number of values")
			}
			k, err := strconv.Unquote(f[1])
			if err != nil {
				return nil, fail(l, "row key: %v", err)
			}
			var vals []*big.Int
			for _, vs := range f[2:] {
				v, ok := new(big.Int).SetString(vs, 0)
				if !ok {
					return nil, fail(l, "row value %q", vs)
				}
				vals = append(vals, v)
			}
			t.Rows[k] = vals
		case w == "zerofact":
			// zerofact (b *Buffer) expr : holds for a freshly allocated zero value of the type
			j := strings.Index(rest, ")")
			if !strings.HasPrefix(rest, "(") || j < 0 {
				return nil, fail(l, "zerofact (x *T) expr")
			}
			f := strings.Fields(rest[1:j])
			if len(f) != 2 {
				return nil, fail(l, "zerofact (x *T) expr")
			}
			e, err := ParseExpr(strings.TrimSpace(rest[j+1:]))
			if err != nil {
				return nil, fail(l, "%v", err)
			}
			cf.ZeroFacts = append(cf.ZeroFacts, ZeroFact{Var: f[0], Type: strings.TrimPrefix(f[1], "*"), E: e})
		case w == "ghostvar":
			f := strings.Fields(rest)
			if len(f) != 2 {
				return nil, fail(l, "ghostvar NAME SORT")
			}
			if cf.GhostVars == nil {
				cf.GhostVars = map[string]string{}
			}
			cf.GhostVars[f[0]] = f[1]
		case w == "writeset":
			cf.WriteSets = append(cf.WriteSets, rest)
		case w == "monitor":
			// monitor (*pipe) mu
			f := strings.Fields(rest)
			if len(f) != 2 {
				return nil, fail(l, "monitor TYPE MUTEXFIELD")
			}
			curM = &Monitor{Type: f[0], Mutex: f[1], File: path, Line: l.n}
			cf.Monitors = append(cf.Monitors, curM)
			curF, curL = nil, nil
		case w == "protects":
			if curM == nil {
				return nil, fail(l, "protects outside monitor")
			}
			for _, p := range strings.Split(rest, ",") {
				curM.Protects = append(curM.Protects, strings.TrimSpace(p))
			}
		case w == "invariant":
			if curM == nil {
				return nil, fail(l, "invariant outside monitor")
			}
			c, err := parseClause(l, rest)
			if err != nil {
				return nil, err
			}
			curM.Invariant = append(curM.Invariant, c)
		case w == "const":
			i := strings.Index(rest, "=")
			if i < 0 {
				return nil, fail(l, "const NAME = expr")
			}
			e, err := ParseExpr(strings.TrimSpace(rest[i+1:]))
			if err != nil {
				return nil, fail(l, "%v", err)
			}
			cf.Consts[strings.TrimSpace(rest[:i])] = e
		case w == "secret":
			cf.Secrets = append(cf.Secrets, strings.Fields(rest)...)
		case w == "sink":
			cf.Sinks = append(cf.Sinks, strings.Fields(rest)...)
		case w == "assumes":
			c, err := parseClause(l, rest)
			if err != nil {
				return nil, err
			}
			if curF == nil || c.Label == "" {
				return nil, fail(l, "assumes needs a function and a label")
			}
			curF.Assumes = append(curF.Assumes, c)
		case w == "postassume":
			c, err := parseClause(l, rest)
			if err != nil {
				return nil, err
			}
			if curF == nil || c.Label == "" {
				return nil, fail(l, "postassume needs a function and a label")
			}
			curF.PostAssumes = append(curF.PostAssumes, c)
		case w == "exit":
			c, err := parseClause(l, rest)
			if err != nil {
				return nil, err
			}
			if curF == nil || c.Label == "" {
				return nil, fail(l, "exit needs a function and a label")
			}
			curF.Exits = append(curF.Exits, c)
		case w == "requires" || w == "ensures":
			c, err := parseClause(l, rest)
			if err != nil {
				return nil, err
			}
			switch {
			case curR != nil && curF == nil && curL == nil && w == "ensures":
				curR.Ensures = append(curR.Ensures, c)
			case curF != nil && w == "requires":
				curF.Requires = append(curF.Requires, c)
			case curF != nil:
				curF.Ensures = append(curF.Ensures, c)
			case curL != nil && w == "requires":
				curL.Requires = append(curL.Requires, c)
			case curL != nil:
				curL.Ensures = append(curL.Ensures, c)
			default:
				return nil, fail(l, "%s outside func/lemma", w)
			}
		case w == "use":
			c, err := parseClause(l, rest)
			if err != nil {
				return nil, err
			}
			if curF != nil {
				curF.Uses = append(curF.Uses, c)
			} else if curL != nil {
				curL.Uses = append(curL.Uses, c)
			} else {
				return nil, fail(l, "use outside func/lemma")
			}
		case w == "inst":
			if curF == nil {
				return nil, fail(l, "inst outside func")
			}
			i := strings.Index(rest, "=")
			if i < 0 {
				return nil, fail(l, "inst BINDER = expr")
			}
			e, err := ParseExpr(strings.TrimSpace(rest[i+1:]))
			if err != nil {
				return nil, fail(l, "%v", err)
			}
			curF.Insts = append(curF.Insts, InstHint{Binder: strings.TrimSpace(rest[:i]), E: e, Src: rest})
		case w == "case":
			if curF == nil {
				return nil, fail(l, "case outside func")
			}
			c, err := parseClause(l, rest)
			if err != nil {
				return nil, err
			}
			curF.Cases = append(curF.Cases, c)
		case curF == nil && curL != nil && w == "mode":
			curL.BV = rest == "bv"
		case curF == nil:
			return nil, fail(l, "%q outside func", w)
		case w == "modifies":
			curF.HasMod = true
			if rest != "" && rest != "nothing" {
				for _, p := range splitTop(rest, ',') {
					e, err := ParseExpr(p)
					if err != nil {
						return nil, fail(l, "%v in %q", err, p)
					}
					curF.Modifies = append(curF.Modifies, e)
				}
			}
		case w == "loop":
			f := strings.SplitN(rest, " ", 3)
			if len(f) < 3 {
				return nil, fail(l, "loop K invariant|decreases expr")
			}
			var ls *LoopSpec
			if strings.Contains(f[0], "#") {
				if curF.InlLoops == nil {
					curF.InlLoops = map[string]*LoopSpec{}
				}
				ls = curF.InlLoops[f[0]]
				if ls == nil {
					ls = &LoopSpec{}
					curF.InlLoops[f[0]] = ls
				}
			} else {
				k, err := strconv.Atoi(f[0])
				if err != nil {
					return nil, fail(l, "loop ordinal: %v", err)
				}
				ls = curF.Loops[k]
				if ls == nil {
					ls = &LoopSpec{}
					curF.Loops[k] = ls
				}
			}
			c, err := parseClause(l, f[2])
			if err != nil {
				return nil, err
			}
			switch f[1] {
			case "invariant":
				ls.Invariants = append(ls.Invariants, c)
			case "decreases":
				ls.Decreases = &c
			default:
				return nil, fail(l, "loop %s?", f[1])
			}
		case w == "at":
			// at call K of CALLEE assert label: expr
			f := strings.SplitN(l.s, " ", 7)
			if len(f) < 7 || f[1] != "call" || f[3] != "of" {
				return nil, fail(l, "at call K of CALLEE assert|assume expr")
			}
			k, err := strconv.Atoi(f[2])
			if err != nil {
				return nil, fail(l, "call ordinal: %v", err)
			}
			var c Clause
			if f[5] != "set" {
				c, err = parseClause(l, f[6])
				if err != nil {
					return nil, err
				}
			}
			if f[5] == "set" {
				// at call K of F set NAME = EXPR   (ghost update after the call; results are visible)
				i := strings.Index(f[6], "=")
				if i < 0 {
					return nil, fail(l, "at call K of F set NAME = expr")
				}
				e, err := ParseExpr(strings.TrimSpace(f[6][i+1:]))
				if err != nil {
					return nil, fail(l, "%v", err)
				}
				curF.Asserts = append(curF.Asserts, AtCall{Ordinal: k, Callee: f[4], Kind: "set", Ghost: strings.TrimSpace(f[6][:i]), C: Clause{E: e, Src: f[6], File: path, Line: l.n}})
				continue
			}
			if f[5] != "assert" {
				return nil, fail(l, "only 'assert' and 'set' are allowed at call sites")
			}
			curF.Asserts = append(curF.Asserts, AtCall{Ordinal: k, Callee: f[4], Kind: f[5], C: c})
		case w == "inline":
			curF.Inline = true
		case w == "shared":
			// shared LOC [rely EXPR]
			loc, rely := rest, ""
			if i := strings.Index(rest, " rely "); i >= 0 {
				loc, rely = strings.TrimSpace(rest[:i]), strings.TrimSpace(rest[i+6:])
			}
			le, err := ParseExpr(loc)
			if err != nil {
				return nil, fail(l, "%v", err)
			}
			sh := SharedSpec{Loc: le, Src: rest}
			if rely != "" {
				if sh.Rely, err = ParseExpr(rely); err != nil {
					return nil, fail(l, "%v", err)
				}
			}
			curF.Shared = append(curF.Shared, sh)
		case w == "reveal":
			curF.Reveals = append(curF.Reveals, strings.Fields(rest)...)
		case w == "inlinecalls":
			curF.InlineAll = append(curF.InlineAll, strings.Fields(rest)...)
		case w == "mode":
			curF.BV = rest == "bv"
		case w == "recovers":
			curF.Recovers = true
		case w == "diverges":
			curF.Diverges = true
		case w == "trusted":
			curF.Trusted = true
		case w == "nosafe":
			curF.NoSafe = true
			curF.Flags["nosafe"] = rest
		case w == "ghost":
			f := strings.Fields(rest)
			if len(f) != 2 {
				return nil, fail(l, "ghost NAME TYPE")
			}
			curF.Ghost = append(curF.Ghost, SBind{f[0], f[1]})
		case w == "flag":
			f := strings.SplitN(rest, " ", 2)
			v := ""
			if len(f) > 1 {
				v = f[1]
			}
			curF.Flags[f[0]] = v
		default:
			return nil, fail(l, "unknown clause %q", w)
		}
	}
	return cf, nil
}

func isLabel(s string) bool {
	if s == "" {
		return false
	}
	for i, c := range s {
		if !(unicode.IsLetter(c) || c == '_' || c == '-' || (i > 0 && unicode.IsDigit(c))) {
			return false
		}
	}
	return true
}

func splitTop(s string, sep byte) []string {
	var out []string
	depth := 0
	start := 0
	for i := 0; i < len(s); i++ {
		switch s[i] {
		case '(', '[':
			depth++
		case ')', ']':
			depth--
		default:
			if s[i] == sep && depth == 0 {
				out = append(out, strings.TrimSpace(s[start:i]))
				start = i + 1
			}
		}
	}
	out = append(out, strings.TrimSpace(s[start:]))
	return out
}

// parseSig parses "name(a T, b U) R" (R optional).
func parseSig(s string) (name string, params []SBind, ret string, err error) {
	i := strings.Index(s, "(")
	if i < 0 {
		return "", nil, "", fmt.Errorf("missing ( in signature %q", s)
	}
	name = strings.TrimSpace(s[:i])
	depth := 0
	j := i
	for ; j < len(s); j++ {
		if s[j] == '(' {
			depth++
		} else if s[j] == ')' {
			depth--
			if depth == 0 {
				break
			}
		}
	}
	if j >= len(s) {
		return "", nil, "", fmt.Errorf("unbalanced ( in %q", s)
	}
	ps := strings.TrimSpace(s[i+1 : j])
	if ps != "" {
		for _, p := range splitTop(ps, ',') {
			f := strings.SplitN(strings.TrimSpace(p), " ", 2)
			if len(f) != 2 {
				return "", nil, "", fmt.Errorf("parameter %q needs a type", p)
			}
			params = append(params, SBind{f[0], strings.TrimSpace(f[1])})
		}
	}
	ret = strings.TrimSpace(s[j+1:])
	return
}

func parsePure(s string) (*PureFunc, error) {
	pf := &PureFunc{Src: s}
	s = strings.TrimSpace(s)
	if strings.HasPrefix(s, "(") {
		j := strings.Index(s, ")")
		f := strings.Fields(s[1:j])
		if len(f) != 2 {
			return nil, fmt.Errorf("receiver in %q", s)
		}
		pf.Recv = &SBind{f[0], f[1]}
		s = strings.TrimSpace(s[j+1:])
	}
	body := ""
	// find top-level " = "
	depth := 0
	eq := -1
	for i := 0; i < len(s); i++ {
		switch s[i] {
		case '(', '[':
			depth++
		case ')', ']':
			depth--
		case '=':
			if depth == 0 && i > 0 && i+1 < len(s) && s[i+1] != '=' && s[i-1] != '=' && s[i-1] != '!' && s[i-1] != '<' && s[i-1] != '>' {
				eq = i
			}
		}
		if eq >= 0 {
			break
		}
	}
	sig := s
	if eq >= 0 {
		sig = strings.TrimSpace(s[:eq])
		body = strings.TrimSpace(s[eq+1:])
	}
	var err error
	pf.Name, pf.Params, pf.Ret, err = parseSig(sig)
	if err != nil {
		return nil, err
	}
	if body != "" {
		pf.Body, err = ParseExpr(body)
		if err != nil {
			return nil, fmt.Errorf("%v in body of %s", err, pf.Name)
		}
		recvName = ""
		if pf.Recv != nil {
			recvName = pf.Recv.Name
		}
		pf.Rec = mentionsCall(pf.Body, pf.Name)
	} else {
		pf.Abstract = true
	}
	return pf, nil
}

var recvName string // receiver identifier of the pure function being analysed

func mentionsCall(e *SExpr, name string) bool {
	if e == nil {
		return false
	}
	if e.K == "call" && e.X != nil && e.X.K == "ident" && e.X.Name == name {
		return true
	}
	if e.K == "call" && e.X != nil && e.X.K == "sel" && e.X.Name == name && e.X.X != nil && e.X.X.K == "ident" && e.X.X.Name == recvName {
		return true
	}
	if mentionsCall(e.X, name) || mentionsCall(e.Y, name) || mentionsCall(e.Z, name) {
		return true
	}
	for _, a := range e.Args {
		if mentionsCall(a, name) {
			return true
		}
	}
	return false
}

// ---------------------------------------------------------------- expression parser

type tok struct {
	k string // ident int str char op eof
	s string
}

type lexer struct {
	toks []tok
	p    int
}

var ops3 = []string{"<==>", "==>", "&&", "||", "==", "!=", "<=", ">=", "<<", ">>", "::", "&^"}

func lex(s string) ([]tok, error) {
	var out []tok
	i := 0
	for i < len(s) {
		c := s[i]
		switch {
		case c == ' ' || c == '\t':
			i++
		case unicode.IsLetter(rune(c)) || c == '_' || c == '$':
			j := i + 1
			for j < len(s) && (unicode.IsLetter(rune(s[j])) || unicode.IsDigit(rune(s[j])) || s[j] == '_' || s[j] == '$' || s[j] == '#') {
				j++
			}
			out = append(out, tok{"ident", s[i:j]})
			i = j
		case c >= '0' && c <= '9':
			j := i + 1
			for j < len(s) && (unicode.IsLetter(rune(s[j])) || unicode.IsDigit(rune(s[j])) || s[j] == '_') {
				j++
			}
			out = append(out, tok{"int", s[i:j]})
			i = j
		case c == '"':
			j := i + 1
			for j < len(s) && s[j] != '"' {
				if s[j] == '\\' {
					j++
				}
				j++
			}
			if j >= len(s) {
				return nil, fmt.Errorf("unterminated string")
			}
			u, err := strconv.Unquote(s[i : j+1])
			if err != nil {
				return nil, err
			}
			out = append(out, tok{"str", u})
			i = j + 1
		case c == '\'':
			j := i + 1
			for j < len(s) && s[j] != '\'' {
				if s[j] == '\\' {
					j++
				}
				j++
			}
			if j >= len(s) {
				return nil, fmt.Errorf("unterminated char")
			}
			u, _, _, err := strconv.UnquoteChar(s[i+1:j], '\'')
			if err != nil {
				return nil, err
			}
			out = append(out, tok{"char", strconv.Itoa(int(u))})
			i = j + 1
		default:
			matched := false
			for _, o := range ops3 {
				if strings.HasPrefix(s[i:], o) {
					out = append(out, tok{"op", o})
					i += len(o)
					matched = true
					break
				}
			}
			if !matched {
				out = append(out, tok{"op", string(c)})
				i++
			}
		}
	}
	out = append(out, tok{"eof", ""})
	return out, nil
}

func ParseExpr(s string) (*SExpr, error) {
	toks, err := lex(s)
	if err != nil {
		return nil, err
	}
	lx := &lexer{toks: toks}
	e, err := lx.expr(0)
	if err != nil {
		return nil, err
	}
	if lx.peek().k != "eof" {
		return nil, fmt.Errorf("unexpected %q", lx.peek().s)
	}
	e.Src = s
	return e, nil
}

func (l *lexer) peek() tok { return l.toks[l.p] }
func (l *lexer) next() tok { t := l.toks[l.p]; l.p++; return t }
func (l *lexer) accept(s string) bool {
	if t := l.peek(); t.k == "op" && t.s == s {
		l.p++
		return true
	}
	return false
}
func (l *lexer) expect(s string) error {
	if !l.accept(s) {
		return fmt.Errorf("expected %q, found %q", s, l.peek().s)
	}
	return nil
}

var binPrec = map[string]int{
	"<==>": 1, "==>": 2, "||": 3, "&&": 4,
	"==": 5, "!=": 5, "<": 5, "<=": 5, ">": 5, ">=": 5,
	"+": 6, "-": 6, "|": 6, "^": 6,
	"*": 7, "/": 7, "%": 7, "<<": 7, ">>": 7, "&": 7, "&^": 7,
}

func (l *lexer) expr(minPrec int) (*SExpr, error) {
	lhs, err := l.unary()
	if err != nil {
		return nil, err
	}
	for {
		t := l.peek()
		if t.k != "op" {
			break
		}
		if t.s == "?" && minPrec == 0 {
			l.next()
			a, err := l.expr(0)
			if err != nil {
				return nil, err
			}
			if err := l.expect(":"); err != nil {
				return nil, err
			}
			b, err := l.expr(0)
			if err != nil {
				return nil, err
			}
			lhs = &SExpr{K: "ite", X: lhs, Y: a, Z: b}
			continue
		}
		p, ok := binPrec[t.s]
		if !ok || p < minPrec || (minPrec == 0 && false) {
			break
		}
		if p < minPrec {
			break
		}
		l.next()
		np := p + 1
		if t.s == "==>" {
			np = p // right assoc
		}
		rhs, err := l.expr(np)
		if err != nil {
			return nil, err
		}
		lhs = &SExpr{K: "bin", Op: t.s, X: lhs, Y: rhs}
	}
	return lhs, nil
}

func (l *lexer) unary() (*SExpr, error) {
	t := l.peek()
	if t.k == "op" && (t.s == "!" || t.s == "-" || t.s == "^") {
		l.next()
		x, err := l.unary()
		if err != nil {
			return nil, err
		}
		return &SExpr{K: "un", Op: t.s, X: x}, nil
	}
	return l.postfix()
}

func (l *lexer) postfix() (*SExpr, error) {
	x, err := l.primary()
	if err != nil {
		return nil, err
	}
	for {
		switch {
		case l.accept("("):
			var args []*SExpr
			if !l.accept(")") {
				for {
					a, err := l.expr(0)
					if err != nil {
						return nil, err
					}
					args = append(args, a)
					if l.accept(")") {
						break
					}
					if err := l.expect(","); err != nil {
						return nil, err
					}
				}
			}
			x = &SExpr{K: "call", X: x, Args: args}
		case l.accept("["):
			if l.accept("*") {
				if err := l.expect("]"); err != nil {
					return nil, err
				}
				x = &SExpr{K: "star", X: x}
				continue
			}
			var lo, hi *SExpr
			if l.peek().s != ":" {
				lo, err = l.expr(0)
				if err != nil {
					return nil, err
				}
			}
			if l.accept(":") {
				if l.peek().s != "]" {
					hi, err = l.expr(0)
					if err != nil {
						return nil, err
					}
				}
				if err := l.expect("]"); err != nil {
					return nil, err
				}
				x = &SExpr{K: "slice", X: x, Y: lo, Z: hi}
			} else {
				if err := l.expect("]"); err != nil {
					return nil, err
				}
				x = &SExpr{K: "index", X: x, Y: lo}
			}
		case l.accept("."):
			t := l.next()
			if t.k != "ident" {
				return nil, fmt.Errorf("selector expects identifier, found %q", t.s)
			}
			x = &SExpr{K: "sel", X: x, Name: t.s}
		default:
			return x, nil
		}
	}
}

func (l *lexer) primary() (*SExpr, error) {
	t := l.next()
	switch t.k {
	case "int":
		s := strings.ReplaceAll(t.s, "_", "")
		v, ok := new(big.Int).SetString(s, 0)
		if !ok {
			return nil, fmt.Errorf("bad integer %q", t.s)
		}
		return &SExpr{K: "int", Int: v}, nil
	case "char":
		v, _ := new(big.Int).SetString(t.s, 10)
		return &SExpr{K: "int", Int: v, Op: "char"}, nil
	case "str":
		return &SExpr{K: "str", Str: t.s}, nil
	case "ident":
		if t.s == "forall" || t.s == "exists" {
			var binds []SBind
			for {
				n := l.next()
				if n.k != "ident" {
					return nil, fmt.Errorf("binder name expected")
				}
				ty := l.next()
				if ty.k != "ident" {
					return nil, fmt.Errorf("binder type expected")
				}
				binds = append(binds, SBind{n.s, ty.s})
				if l.accept(",") {
					continue
				}
				break
			}
			if err := l.expect("::"); err != nil {
				return nil, err
			}
			body, err := l.expr(0)
			if err != nil {
				return nil, err
			}
			return &SExpr{K: t.s, Binds: binds, X: body}, nil
		}
		return &SExpr{K: "ident", Name: t.s}, nil
	case "op":
		if t.s == "(" {
			e, err := l.expr(0)
			if err != nil {
				return nil, err
			}
			if err := l.expect(")"); err != nil {
				return nil, err
			}
			return e, nil
		}
	}
	return nil, fmt.Errorf("unexpected %q", t.s)
}

func (e *SExpr) String() string {
	if e == nil {
		return ""
	}
	if e.Src != "" {
		return e.Src
	}
	switch e.K {
	case "ident":
		return e.Name
	case "int":
		return e.Int.String()
	case "str":
		return strconv.Quote(e.Str)
	case "bin":
		return "(" + e.X.String() + " " + e.Op + " " + e.Y.String() + ")"
	case "un":
		return e.Op + e.X.String()
	case "call":
		var a []string
		for _, x := range e.Args {
			a = append(a, x.String())
		}
		return e.X.String() + "(" + strings.Join(a, ", ") + ")"
	case "index":
		return e.X.String() + "[" + e.Y.String() + "]"
	case "slice":
		return e.X.String() + "[" + e.Y.String() + ":" + e.Z.String() + "]"
	case "sel":
		return e.X.String() + "." + e.Name
	case "ite":
		return "(" + e.X.String() + " ? " + e.Y.String() + " : " + e.Z.String() + ")"
	case "forall", "exists":
		var b []string
		for _, x := range e.Binds {
			b = append(b, x.Name+" "+x.Type)
		}
		return "(" + e.K + " " + strings.Join(b, ", ") + " :: " + e.X.String() + ")"
	case "star":
		return e.X.String() + "[*]"
	}
	return "?"
}
