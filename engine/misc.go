package main

// Intrinsics: sync monitors, channels, maps, goroutines, range iteration.

import (
	"fmt"
	"go/token"
	"go/types"
	"os"
	"sort"
	"strings"

	"golang.org/x/tools/go/ssa"
)

// ---------------------------------------------------------------- at-call assertions

func (x *Exec) atCallAsserts(st *State, fr *Frame, callee string, pnames []string, args []Val, where string) {
	if fr.callOrd == nil {
		return
	}
	ck := fmt.Sprintf("%d|%s", fr.depth, callee)
	if st.callOrd == nil {
		st.callOrd = map[string]int{}
	}
	st.callOrd[ck]++
	ord := st.callOrd[ck]
	fr.callOrd[callee] = ord
	if so := x.E.siteOrdinal(fr.fn, x.curSite, callee); so > 0 {
		ord = so
	}
	if fr.fc == nil || x.dry {
		return
	}
	var cenv *Env
	for ai := range fr.fc.Asserts {
		a := &fr.fc.Asserts[ai]
		if a.Kind == "set" || a.Ordinal != ord || !calleeMatches(a.Callee, callee) {
			continue
		}
		if cenv == nil {
			cenv = x.envFor(st, fr)
			for i, n := range pnames {
				if i < len(args) {
					cenv.vars["arg."+n] = args[i]
				}
			}
			for i := range args {
				cenv.vars[fmt.Sprintf("arg%d", i)] = args[i]
			}
		}
		x.E.markAssertUsed(fr.fc, ai)
		if g, ok := x.specBool(cenv, a.C.E, "assert:"+labelOr(a.C, "at-call")); ok {
			x.oblige(st, "assert", labelOr(a.C, "at-call"), g, a.C.Src, where)
		}
	}
}

// withGhostSets wraps the continuation of a call with the ghost updates declared
// for it ("at call K of F set g = expr": evaluated after the call, results visible).
func (x *Exec) withGhostSets(fr *Frame, callee string, pnames []string, args []Val, results *types.Tuple, k func(*State, Val)) func(*State, Val) {
	if fr.fc == nil {
		return k
	}
	if x.dry || fr.callOrd == nil {
		// effect computation: any ghost this callee may set is written by the loop
		for ai := range fr.fc.Asserts {
			a := &fr.fc.Asserts[ai]
			if a.Kind == "set" && calleeMatches(a.Callee, callee) && x.dry {
				x.dryEff.ghost["ghost!"+a.Ghost] = true
			}
		}
		return k
	}
	ord := fr.callOrd[callee]
	if so := x.E.siteOrdinal(fr.fn, x.curSite, callee); so > 0 {
		ord = so
	}
	var sets []*AtCall
	for ai := range fr.fc.Asserts {
		a := &fr.fc.Asserts[ai]
		if a.Kind == "set" && a.Ordinal == ord && calleeMatches(a.Callee, callee) {
			sets = append(sets, a)
			x.E.markAssertUsed(fr.fc, ai)
		}
	}
	if os.Getenv("GOVC_DEBUG_SETS") != "" {
		fmt.Fprintf(os.Stderr, "[sets] %s ord=%d sets=%d\n", callee, ord, len(sets))
	}
	if len(sets) == 0 {
		return k
	}
	return func(st *State, res Val) {
		env := x.envFor(st, fr)
		for i, n := range pnames {
			if i < len(args) {
				env.vars["arg."+n] = args[i]
			}
		}
		if results != nil && len(res.L) > 0 {
			x.bindResults(env, results, res)
		}
		for _, a := range sets {
			v, ok := x.specVal(env, a.C.E, "set:"+a.Ghost)
			if !ok {
				continue
			}
			if len(v.L) == 1 {
				st.ghost["ghost!"+a.Ghost] = v.L[0]
			}
		}
		k(st, res)
	}
}

func calleeMatches(pat, full string) bool {
	if pat == full || pat == shortName(full) {
		return true
	}
	// bare function or method name
	s := shortName(full)
	if i := strings.LastIndex(s, "."); i >= 0 && s[i+1:] == pat {
		return true
	}
	return false
}

// ---------------------------------------------------------------- monitors

type monitorInfo struct {
	m       *Monitor
	sT      types.Type // struct type
	fields  map[string][2]int
	absFlds map[string]bool
}

func (x *Exec) monitorOf(sT types.Type, field string) *monitorInfo {
	for _, m := range x.E.monitors {
		mt := strings.TrimPrefix(strings.Trim(m.Type, "()"), "*")
		n, ok := sT.(*types.Named)
		if !ok || n.Obj().Name() != mt {
			continue
		}
		if field != "" && m.Mutex != field {
			continue
		}
		mi := &monitorInfo{m: m, sT: sT, fields: map[string][2]int{}, absFlds: map[string]bool{}}
		for _, p := range m.Protects {
			name := p
			if strings.HasPrefix(p, "abs(") {
				name = strings.TrimSuffix(strings.TrimPrefix(p, "abs("), ")")
				mi.absFlds[name] = true
			}
			ft, off := x.findField(sT, name)
			if ft == nil {
				x.E.configError(fmt.Sprintf("%s:%d: monitor protects unknown field %s", m.File, m.Line, name))
				continue
			}
			mi.fields[name] = [2]int{off, off + x.tc.nleaves(ft)}
		}
		return mi
	}
	return nil
}

func fieldNameAt(tc *TypeCtx, sT types.Type, off int) string {
	st, ok := sT.Underlying().(*types.Struct)
	if !ok {
		return ""
	}
	o := 0
	for i := 0; i < st.NumFields(); i++ {
		n := tc.nleaves(st.Field(i).Type())
		if off >= o && off < o+n {
			return st.Field(i).Name()
		}
		o += n
	}
	return ""
}

func (x *Exec) monitorInvariant(st *State, mi *monitorInfo, ref *Term) *Term {
	recvName := "p"
	env := &Env{x: x, st: st, old: st, vars: map[string]Val{}, pkgPath: fnPkgPath(x.fn)}
	env.vars[recvName] = Val{T: types.NewPointer(mi.sT), L: []*Term{ref}}
	env.vars["this"] = env.vars[recvName]
	var ts []*Term
	for _, c := range mi.m.Invariant {
		ts = append(ts, x.evalBool(env, c.E))
	}
	return And(ts...)
}

func (x *Exec) monitorHavoc(st *State, mi *monitorInfo, ref *Term) {
	for _, name := range sortedFieldNames(mi.fields) {
		r := mi.fields[name]
		ft, off := x.findField(mi.sT, name)
		a := &Addr{K: AHeap, Key: typeKey(mi.sT), Ref: ref, Off: off, T: ft, contT: mi.sT}
		_ = r
		if mi.absFlds[name] {
			cur := x.loadAddr(st, a)
			x.bumpVersion(st, cur.L[len(cur.L)-1])
			continue
		}
		nv := x.freshVal("mon."+name, ft, nil)
		x.storeAddr(st, a, nv)
		st.assume(x.typeInv(x.loadAddr(st, a), st))
	}
}

const heldKey = "held!"

func (x *Exec) lockSnapshot(st *State) *State { return x.E.snapshots[st.ghostID("locksnap")] }

func (s *State) ghostID(k string) string {
	if t, ok := s.ghost[k]; ok && t.Op == "var" {
		return t.Name
	}
	return ""
}

func (x *Exec) intrinsic(st *State, fr *Frame, site ssa.Instruction, fn *ssa.Function, name string, args []Val, where string, k func(*State, Val)) bool {
	switch name {
	case "(*sync.Mutex).Lock", "(*sync.RWMutex).Lock", "(*sync.RWMutex).RLock":
		if a := args[0].A; a != nil && a.K == AHeap {
			fname := fieldNameAt(x.tc, a.contT, a.Off)
			if mi := x.monitorOf(a.contT, fname); mi != nil {
				key := heldKey + mi.m.Type + "." + fname
				x.oblige(st, "lock", "no-double-lock", Not(x.ghostBool(st, key)), "mutex is not already held", where)
				st.ghost[key] = TrueT
				st.ghost["monref!"+mi.m.Type] = a.Ref
				x.monitorHavoc(st, mi, a.Ref)
				st.assume(x.monitorInvariant(st, mi, a.Ref))
				if !x.dry {
					id := x.E.fresh("snap", BoolS)
					st.ghost["locksnap"] = id
					x.E.snapshots[id.Name] = st.clone()
				}
			}
		}
		k(st, Val{})
		return true
	case "(*sync.Mutex).Unlock", "(*sync.RWMutex).Unlock", "(*sync.RWMutex).RUnlock":
		if a := args[0].A; a != nil && a.K == AHeap {
			fname := fieldNameAt(x.tc, a.contT, a.Off)
			if mi := x.monitorOf(a.contT, fname); mi != nil {
				key := heldKey + mi.m.Type + "." + fname
				x.oblige(st, "lock", "unlock-held", x.ghostBool(st, key), "mutex is held at Unlock", where)
				for _, c := range mi.m.Invariant {
					env := &Env{x: x, st: st, old: st, vars: map[string]Val{"p": {T: types.NewPointer(mi.sT), L: []*Term{a.Ref}}}, pkgPath: fnPkgPath(x.fn)}
					x.oblige(st, "monitor", "inv-at-unlock:"+labelOr(c, "inv"), x.evalBool(env, c.E), c.Src, where)
				}
				st.ghost[key] = FalseT
			}
		}
		k(st, Val{})
		return true
	case "(*sync.Cond).Wait":
		x.condOp(st, fr, args[0], "wait", where)
		k(st, Val{})
		return true
	case "(*sync.Cond).Signal":
		x.condOp(st, fr, args[0], "signal", where)
		k(st, Val{})
		return true
	case "(*sync.Cond).Broadcast":
		x.condOp(st, fr, args[0], "broadcast", where)
		k(st, Val{})
		return true
	case "sync.NewCond":
		ref := x.allocRef(st)
		k(st, Val{T: fn.Signature.Results().At(0).Type(), L: []*Term{ref}})
		return true
	case "(*sync.WaitGroup).Add", "(*sync.WaitGroup).Done", "(*sync.WaitGroup).Wait",
		"(*sync.Once).Do", "runtime.Gosched":
		if name == "(*sync.Once).Do" {
			return false
		}
		k(st, Val{})
		return true
	}
	return false
}

func (x *Exec) ghostBool(st *State, key string) *Term {
	if t, ok := st.ghost[key]; ok {
		return t
	}
	return FalseT
}

// condOp: Wait / Signal on a condition variable loaded from a monitor field.
func (x *Exec) condOp(st *State, fr *Frame, recv Val, op string, where string) {
	src := recv.Src
	if src == nil || src.K != AHeap {
		if op == "wait" {
			x.abort(st, "Cond.Wait on a condition variable of unknown provenance")
		}
		return
	}
	fname := fieldNameAt(x.tc, src.contT, src.Off)
	mi := x.monitorOf(src.contT, "")
	if mi == nil {
		return
	}
	if op == "signal" || op == "broadcast" {
		st.ghost["signalled!"+fname] = TrueT
		if op == "broadcast" {
			st.ghost["broadcast!"+fname] = TrueT // every waiter is woken, not just one
		}
		return
	}
	key := heldKey + mi.m.Type + "." + mi.m.Mutex
	x.oblige(st, "lock", "wait-held", x.ghostBool(st, key), "mutex is held at Wait", where)
	for _, c := range mi.m.Invariant {
		env := &Env{x: x, st: st, old: st, vars: map[string]Val{"p": {T: types.NewPointer(mi.sT), L: []*Term{src.Ref}}}, pkgPath: fnPkgPath(x.fn)}
		x.oblige(st, "monitor", "inv-at-wait:"+labelOr(c, "inv"), x.evalBool(env, c.E), c.Src, where)
	}
	x.monitorHavoc(st, mi, src.Ref)
	st.assume(x.monitorInvariant(st, mi, src.Ref))
	st.ghost["waited!"+fname] = TrueT
	st.ghost["waited!"] = TrueT
}

func (x *Exec) monitorPred(env *Env, name string, args []*SExpr) Val {
	field := ""
	if len(args) > 0 {
		a := args[0]
		if a.K == "sel" {
			field = a.Name
		} else if a.K == "ident" {
			field = a.Name
		}
	}
	if env.ghostScope != nil && (name == "signalled" || name == "waited" || name == "broadcast") {
		k := name + "!" + field
		t, ok := env.ghostScope[k]
		if !ok {
			t = x.E.fresh("callee."+name+"."+field, BoolS)
			env.ghostScope[k] = t
		}
		return mathVal(t)
	}
	switch name {
	case "signalled":
		return mathVal(x.ghostBool(env.st, "signalled!"+field))
	case "waited":
		return mathVal(x.ghostBool(env.st, "waited!"+field))
	case "broadcast":
		return mathVal(x.ghostBool(env.st, "broadcast!"+field))
	case "held":
		for k, v := range env.st.ghost {
			if strings.HasPrefix(k, heldKey) && strings.HasSuffix(k, "."+field) {
				return mathVal(v)
			}
		}
		return mathVal(FalseT)
	}
	return mathVal(FalseT)
}

// checkLock: access to a monitor-protected field requires the mutex.
func (x *Exec) checkLock(st *State, fr *Frame, a *Addr, where string) {
	if x.dry || a.K != AHeap || len(x.E.monitors) == 0 || a.contT == nil {
		return
	}
	mi := x.monitorOf(a.contT, "")
	if mi == nil {
		return
	}
	n := x.tc.nleaves(a.T)
	for _, name := range sortedFieldNames(mi.fields) {
		r := mi.fields[name]
		if a.Off < r[1] && a.Off+n > r[0] {
			// constructors touching a fresh object are exempt
			fresh := Ge(a.Ref, Var("brk@0", IntS))
			key := heldKey + mi.m.Type + "." + mi.m.Mutex
			x.oblige(st, "lock", name, Or(x.ghostBool(st, key), fresh), "field "+name+" accessed with "+mi.m.Mutex+" held", where)
		}
	}
}

func (x *Exec) invokeIntrinsic(st *State, fr *Frame, site ssa.Instruction, tname, method string, recv Val, args []Val, where string, k func(*State, Val)) bool {
	if tname == "sync.Locker" {
		k(st, Val{})
		return true
	}
	if tname == "error" && method == "Error" {
		// the text of an error: an uninterpreted string per error value
		ref := App("err.text", IntS, recv.L[0], recv.L[1])
		ln := App("err.textlen", IntS, recv.L[0], recv.L[1])
		st.assume(Le(IntC(0), ln))
		k(st, Val{T: types.Typ[types.String], L: []*Term{ref, IntC(0), ln}})
		return true
	}
	return false
}

// ---------------------------------------------------------------- goroutines

func (x *Exec) goStmt(st *State, fr *Frame, g *ssa.Go) {
	// the spawned function is verified on its own; here only the spawn is recorded
	st.callLog = append(st.callLog, "go")
	// the spawn of a named function is an event: "at call K of F assert ..." sees the arguments it is started with
	if callee := g.Call.StaticCallee(); callee != nil && !g.Call.IsInvoke() {
		args := make([]Val, len(g.Call.Args))
		for i, a := range g.Call.Args {
			args[i] = x.reg(st, fr, a)
		}
		x.curSite = g
		x.atCallAsserts(st, fr, fullName(callee), fnParamNames(callee), args, x.pos(g.Pos()))
	}
	x.spawnPre(st, fr, g)
	if mc, ok := g.Call.Value.(*ssa.MakeClosure); ok {
		// variables captured by reference become shared: havoc on later reads is
		// approximated by havocking them now and at every loop head
		fv := x.reg(st, fr, mc)
		for _, b := range fv.Bindings {
			if b.A == nil && len(b.L) == 1 {
				if pt, ok := b.T.Underlying().(*types.Pointer); ok {
					a := &Addr{K: AHeap, Key: typeKey(pt.Elem()), Ref: b.L[0], T: pt.Elem(), contT: pt.Elem()}
					x.E.noteShared(x, typeKey(pt.Elem()))
					_ = a
				}
			}
		}
	}
}

// ---------------------------------------------------------------- channels (ghost logs)

func (x *Exec) chanSend(st *State, fr *Frame, s *ssa.Send) {
	ch := x.reg(st, fr, s.Chan)
	v := x.reg(st, fr, s.X)
	// a send is also a named event: "at call K of send assert ..." with arg.ch, arg.value
	x.curSite = s
	x.atCallAsserts(st, fr, "send", []string{"ch", "value"}, []Val{ch, v}, x.pos(s.Pos()))
	sets := x.withGhostSets(fr, "send", []string{"ch", "value"}, []Val{ch, v}, nil, func(*State, Val) {})
	x.chanSendVal(st, fr, ch, v, x.pos(s.Pos()))
	sets(st, Val{})
}

func chanKey(ch Val) string { return "chan!" + ch.L[0].String() }

func (x *Exec) chanSendVal(st *State, fr *Frame, ch Val, v Val, where string) {
	// ghost: count of sends, and the sequence of sent leaf tuples
	cntKey := chanKey(ch) + "!sent"
	cnt, ok := st.ghost[cntKey]
	if !ok {
		cnt = Var("sent0."+sanitize(ch.L[0].String()), IntS)
		st.ghost[cntKey] = cnt
	}
	for i, l := range v.L {
		lk := fmt.Sprintf("%s!log%d", chanKey(ch), i)
		arr, ok := st.ghost[lk]
		if !ok {
			arr = Var(fmt.Sprintf("sendlog%d.%s", i, sanitize(ch.L[0].String())), ArrS(IntS, l.S))
		}
		st.ghost[lk] = Store(arr, cnt, l)
		if x.dry {
			x.dryEff.ghost[lk] = true
		}
	}
	st.ghost[cntKey] = Add(cnt, IntC(1))
	if x.dry {
		x.dryEff.ghost[cntKey] = true
	}
	closedKey := chanKey(ch) + "!closed"
	x.oblige(st, "safe", "send-on-closed", Not(x.ghostBool(st, closedKey)), "send on a channel this function has closed", where)
}

func (x *Exec) chanRecv(st *State, fr *Frame, v *ssa.UnOp) {
	ch := x.reg(st, fr, v.X)
	et := ch.T.Underlying().(*types.Chan).Elem()
	val := x.freshVal("recv", et, st)
	if fr.fc != nil {
		if _, ok := fr.fc.Flags["recvnonnil"]; ok && len(val.L) == 1 && isRefLike(et) {
			// channel invariant declared by the contract: received pointers are not nil
			st.assume(Or(Not(Eq(val.L[0], IntC(0))), FalseT))
			x.E.noteAssumption("channel invariant (flag recvnonnil): elements received in " + relName(fr.fn) + " are non-nil pointers")
		}
	}
	cntKey := chanKey(ch) + "!recvd"
	cnt, ok := st.ghost[cntKey]
	if !ok {
		cnt = Var("recvd0."+sanitize(ch.L[0].String()), IntS)
	}
	st.ghost[cntKey] = Add(cnt, IntC(1))
	if x.dry {
		x.dryEff.ghost[cntKey] = true
	}
	// drained(ch): the last receive on ch reported that the channel is closed and empty (only a `v, ok := <-ch`
	// or a range loop can tell)
	st.ghost[chanKey(ch)+"!drained"] = FalseT
	if x.dry {
		x.dryEff.ghost[chanKey(ch)+"!drained"] = true
	}
	if v.CommaOk {
		okv := x.E.fresh("recvok", BoolS)
		st.ghost[chanKey(ch)+"!drained"] = Not(okv)
		zero := x.zeroVal(et)
		L := make([]*Term, 0, len(val.L)+1)
		for i := range val.L {
			L = append(L, Ite(okv, val.L[i], zero.L[i]))
		}
		L = append(L, okv)
		st.regs[v] = Val{T: v.Type(), L: L}
		x.recvEvent(st, fr, v, ch, val)
		return
	}
	st.regs[v] = val
	x.recvEvent(st, fr, v, ch, val)
}

// recvEvent: a channel receive is a named event ("at call K of recv assert|set ..." with arg.ch; result is the value).
func (x *Exec) recvEvent(st *State, fr *Frame, v *ssa.UnOp, ch, val Val) {
	x.curSite = v
	x.atCallAsserts(st, fr, "recv", []string{"ch"}, []Val{ch}, x.pos(v.Pos()))
	sets := x.withGhostSets(fr, "recv", []string{"ch"}, []Val{ch}, nil, func(*State, Val) {})
	sets(st, Val{})
}

func (x *Exec) chanClose(st *State, fr *Frame, ch Val, where string) {
	closedKey := chanKey(ch) + "!closed"
	x.oblige(st, "safe", "double-close", Not(x.ghostBool(st, closedKey)), "channel closed twice by this function", where)
	st.ghost[closedKey] = TrueT
}

func (x *Exec) selectStmt(st *State, fr *Frame, s *ssa.Select, k func(*State)) bool {
	// nondeterministic choice over the cases (and default when non-blocking)
	n := len(s.States)
	total := n
	if !s.Blocking {
		total++
	}
	tup := s.Type().(*types.Tuple)
	if x.dry {
		// effect computation: one abstract visit with an unknown outcome
		L := []*Term{x.E.fresh("selidx", IntS), x.E.fresh("selok", BoolS)}
		for j := 2; j < tup.Len(); j++ {
			rv := x.freshVal("selrecv", tup.At(j).Type(), st)
			L = append(L, rv.L...)
		}
		for _, sc := range s.States {
			if sc.Dir == types.SendOnly {
				x.chanSendVal(st, fr, x.reg(st, fr, sc.Chan), x.reg(st, fr, sc.Send), x.pos(s.Pos()))
			}
		}
		st.regs[s] = Val{T: tup, L: L}
		k(st)
		return true
	}
	for ci := 0; ci < total; ci++ {
		st2 := st.clone()
		idx := ci
		if ci == n {
			idx = -1
		}
		L := []*Term{IntC(int64(idx)), x.E.fresh("selok", BoolS)}
		for j := 2; j < tup.Len(); j++ {
			rv := x.freshVal("selrecv", tup.At(j).Type(), st2)
			L = append(L, rv.L...)
		}
		if idx >= 0 && s.States[idx].Dir == types.SendOnly {
			ch := x.reg(st2, fr, s.States[idx].Chan)
			v := x.reg(st2, fr, s.States[idx].Send)
			x.chanSendVal(st2, fr, ch, v, x.pos(s.Pos()))
		}
		st2.regs[s] = Val{T: tup, L: L}
		st2.trace = append(st2.trace, fmt.Sprintf("select:%d", idx))
		k(st2)
	}
	return true
}

// ---------------------------------------------------------------- maps

// A map m (ref r) is modelled by two arrays per map type: present[r][key] and
// value[r][key] (keys must be scalar or string-by-reference).
func (x *Exec) mapArrays(st *State, mt *types.Map) (pk, vk string, ps, vs *Sort) {
	tk := typeKey(mt)
	pk, vk = hkey("MP", tk, 0), hkey("MV", tk, 0)
	kl := x.tc.leaves(mt.Key())
	ks := kl[0].S
	vl := x.tc.leaves(mt.Elem())
	ps = ArrS(IntS, ArrS(ks, BoolS))
	vs = ArrS(IntS, ArrS(ks, vl[0].S))
	return
}

func (x *Exec) mapKeyTerm(st *State, k Val) *Term {
	if isString(k.T) {
		if c, ok := x.E.constStrOf(k); ok {
			return x.E.strID(c)
		}
		return App("str.id", IntS, k.L[0], k.L[1], k.L[2])
	}
	return k.L[0]
}

func (x *Exec) mapInitEmpty(st *State, t types.Type, ref *Term) {
	mt := t.Underlying().(*types.Map)
	if len(x.tc.leaves(mt.Elem())) != 1 {
		return
	}
	pk, _, ps, _ := x.mapArrays(st, mt)
	arr := x.heapArr(st, pk, ps)
	st.heap[pk] = Store(arr, ref, &Term{Op: "constarr", S: ps.E, Args: []*Term{FalseT}})
}

func (x *Exec) lookup(st *State, fr *Frame, v *ssa.Lookup) {
	base := x.reg(st, fr, v.X)
	if isString(v.X.Type()) {
		idx := x.idx(x.reg(st, fr, v.Index), v.Index.Type())
		x.boundsCheck(st, idx, base.L[2], x.pos(v.Pos()))
		st.regs[v] = Val{T: v.Type(), L: []*Term{x.strByte(st, base, idx)}}
		return
	}
	mt := v.X.Type().Underlying().(*types.Map)
	key := x.reg(st, fr, v.Index)
	val, present := x.mapRead(st, base, mt, key)
	if base.Src != nil && base.Src.K == AGlobal {
		if f := x.E.literalMapFact(x, base.Src.Key, mt, val, present); f != nil {
			st.assume(f)
		}
		if isString(mt.Key()) {
			if f := x.E.literalMapKeyFact(x, st, base.Src.Key, key, val, present); f != nil {
				st.assume(f)
			} else if fr.fc != nil {
				// "flag mapkeys": membership in a large literal map implies equality with one of its keys
				if _, on := fr.fc.Flags["mapkeys"]; on {
					if rows, ok := x.E.literalRows(base.Src.Key); ok && len(rows) <= 400 {
						var alts []*Term
						for _, r := range rows {
							alts = append(alts, x.strEq(st, key, x.E.stringConst(x, r.Key, types.Typ[types.String])))
						}
						st.assume(Implies(present, Or(alts...)))
					}
				}
			}
		}
	}
	if v.CommaOk {
		st.regs[v] = Val{T: v.Type(), L: append(append([]*Term{}, val.L...), present)}
	} else {
		st.regs[v] = val
	}
}

// mapRead: (value, present) of m[key].  Scalar element types use the array
// model (so updates are precise); composite element types are read through
// uninterpreted functions of (map, version, key), deterministic between updates.
func (x *Exec) mapRead(st *State, m Val, mt *types.Map, key Val) (Val, *Term) {
	et := mt.Elem()
	kt := x.mapKeyTerm(st, key)
	if len(x.tc.leaves(et)) != 1 || len(x.tc.leaves(mt.Key())) > 3 {
		ver := x.mapVersion(st, mt)
		ls := x.tc.leaves(et)
		val := Val{T: et, L: make([]*Term, len(ls))}
		for i, l := range ls {
			val.L[i] = App(fmt.Sprintf("map.get%d.%s", i, sanitize(typeKey(mt))), l.S, m.L[0], ver, kt)
		}
		st.assume(x.typeInv(val, st))
		present := App("map.has."+sanitize(typeKey(mt)), BoolS, m.L[0], ver, kt)
		zero := x.zeroVal(et)
		out := Val{T: et, L: make([]*Term, len(ls))}
		for i := range ls {
			out.L[i] = Ite(present, val.L[i], zero.L[i])
		}
		return out, present
	}
	pk, vk, ps, vs := x.mapArrays(st, mt)
	present := Select(Select(x.heapArr(st, pk, ps), m.L[0]), kt)
	val := Select(Select(x.heapArr(st, vk, vs), m.L[0]), kt)
	zero := x.zeroVal(et).L[0]
	return Val{T: et, L: []*Term{Ite(present, val, zero)}}, present
}

func (x *Exec) mapVersion(st *State, mt *types.Map) *Term {
	k := "ghost!mapver!" + typeKey(mt)
	if t, ok := st.ghost[k]; ok {
		return t
	}
	t := Var("mapver0."+sanitize(typeKey(mt)), IntS)
	st.ghost[k] = t
	return t
}

func (x *Exec) mapUpdate(st *State, fr *Frame, u *ssa.MapUpdate) {
	m := x.reg(st, fr, u.Map)
	mt := u.Map.Type().Underlying().(*types.Map)
	if len(x.tc.leaves(mt.Elem())) != 1 || len(x.tc.leaves(mt.Key())) > 3 {
		// composite elements: the whole map becomes unknown (version bump)
		k := "ghost!mapver!" + typeKey(mt)
		st.ghost[k] = x.E.fresh("mapver", IntS)
		if x.dry {
			x.dryEff.ghost[k] = true
		}
		return
	}
	key := x.reg(st, fr, u.Key)
	val := x.reg(st, fr, u.Value)
	pk, vk, ps, vs := x.mapArrays(st, mt)
	kt := x.mapKeyTerm(st, key)
	pa, va := x.heapArr(st, pk, ps), x.heapArr(st, vk, vs)
	st.heap[pk] = Store(pa, m.L[0], Store(Select(pa, m.L[0]), kt, TrueT))
	st.heap[vk] = Store(va, m.L[0], Store(Select(va, m.L[0]), kt, val.L[0]))
	x.effHeap(pk, m.L[0])
	x.effHeap(vk, m.L[0])
}

func (x *Exec) mapDelete(st *State, fr *Frame, m, key Val) {
	mt := m.T.Underlying().(*types.Map)
	if len(x.tc.leaves(mt.Elem())) != 1 {
		return
	}
	pk, _, ps, _ := x.mapArrays(st, mt)
	kt := x.mapKeyTerm(st, key)
	pa := x.heapArr(st, pk, ps)
	st.heap[pk] = Store(pa, m.L[0], Store(Select(pa, m.L[0]), kt, FalseT))
	x.effHeap(pk, m.L[0])
}

func (x *Exec) mapLen(st *State, m Val) *Term {
	n := App("map.len", IntS, m.L[0])
	st.assume(Le(IntC(0), n))
	return n
}

// ---------------------------------------------------------------- range over strings / maps

func (x *Exec) next(st *State, fr *Frame, v *ssa.Next) {
	it := x.reg(st, fr, v.Iter)
	rng := it.Fn.(*ssa.Range)
	src := it.Bindings[0]
	key := iterKey(rng)
	pos := st.ghost[key]
	tup := v.Type().(*types.Tuple)
	if v.IsString {
		// trusted UTF-8 axioms: the iteration visits increasing byte positions;
		// at position p the rune r satisfies: byte(p) < 0x80 ==> r == byte(p) and
		// width 1; byte(p) >= 0x80 ==> r >= 0x80 (or r == 0xFFFD) and 1 <= width <= 4.
		ok := Lt(pos, src.L[2])
		b0 := x.strByte(st, src, pos)
		r := x.E.fresh("rune", IntS)
		w := x.E.fresh("runew", IntS)
		st.assume(Implies(ok, And(
			Implies(Lt(b0, IntC(0x80)), And(Eq(r, b0), Eq(w, IntC(1)))),
			Implies(Ge(b0, IntC(0x80)), And(Ge(r, IntC(0x80)), Le(r, IntC(0x10FFFF)), Le(IntC(1), w), Le(w, IntC(4)), Le(Add(pos, w), src.L[2]))))))
		cb := x.E.fresh("k", IntS)
		st.assume(Forall([]*Term{cb}, Implies(And(ok, Lt(pos, cb), Lt(cb, Add(pos, w))), Ge(x.strByte(st, src, cb), IntC(0x80)))))
		x.E.noteAssumption("UTF-8 range axiom: a byte below 0x80 is a one-byte rune of that value; a byte >= 0x80 starts a rune >= 0x80 of width 1..4 whose continuation bytes are all >= 0x80")
		st.ghost[key] = Ite(ok, Add(pos, w), pos)
		if x.dry {
			x.dryEff.ghost[key] = true
		}
		st.ghost[key+"!cur"] = pos
		st.ghost["rangeiter"] = Var(key, IntS)
		st.regs[v] = Val{T: tup, L: []*Term{ok, pos, r}}
		return
	}
	// map iteration: unknown order, each key present; modelled as havoc key/value
	mt := rng.X.Type().Underlying().(*types.Map)
	okv := x.E.fresh("mapnext", BoolS)
	kv := x.freshVal("mapk", mt.Key(), st)
	vv := x.freshVal("mapv", mt.Elem(), st)
	if vis, has := st.ghost[key+"!vis"]; has && len(kv.L) == 1 && len(vv.L) == 1 {
		// iteration over a map with scalar keys and elements: every produced key is
		// present; while the map is unchanged since the range statement no key is
		// produced twice and the iteration ends only when every key was produced
		// (Go specification, "For statements with range clause", item 3).
		pk, vk, ps, vs := x.mapArrays(st, mt)
		presNow := Select(x.heapArr(st, pk, ps), src.L[0])
		valNow := Select(x.heapArr(st, vk, vs), src.L[0])
		p0 := st.ghost[key+"!p0"]
		same := Eq(presNow, p0)
		k := kv.L[0]
		st.assume(Implies(okv, And(Select(presNow, k), Eq(vv.L[0], Select(valNow, k)))))
		st.assume(Implies(And(okv, same), Not(Select(vis, k))))
		j := x.E.fresh("k", k.S)
		st.assume(Implies(And(Not(okv), same), Forall([]*Term{j}, Implies(Select(p0, j), Select(vis, j)))))
		st.ghost[key+"!vis"] = Ite(okv, Store(vis, k, TrueT), vis)
		if x.dry {
			x.dryEff.ghost[key+"!vis"] = true
		}
		x.E.noteAssumption("map range: every produced key is present in the map; over a map that is not modified during the loop each key is produced exactly once (Go specification)")
	}
	L := []*Term{okv}
	L = append(L, kv.L...)
	L = append(L, vv.L...)
	st.ghost[key] = Add(pos, IntC(1))
	if x.dry {
		x.dryEff.ghost[key] = true
	}
	st.regs[v] = Val{T: tup, L: L}
}

// rangeGhost: the position ghost of the function's range-over-string iterator.
func (x *Exec) rangeGhost(st *State, suffix string) *Term {
	var found *Term
	n := 0
	for k, t := range st.ghost {
		if strings.HasPrefix(k, "iter!") && !strings.HasSuffix(k, "!cur") && !strings.HasSuffix(k, "!vis") && !strings.HasSuffix(k, "!p0") {
			found = t
			n++
		}
	}
	if n == 1 {
		return found
	}
	return nil
}

// siteOrdinal: the static ordinal of a call site: its rank, in source order, among
// the call sites of the function whose static callee has the same name ("at call K
// of F" names the K-th call of F as written).  0 when the site's callee is not
// static (the dynamic per-path count is used then).
func (E *Engine) siteOrdinal(fn *ssa.Function, site ssa.Instruction, callee string) int {
	if site == nil || fn == nil {
		return 0
	}
	m, ok := E.siteOrds[fn]
	if !ok {
		m = map[ssa.Instruction]siteInfo{}
		type cs struct {
			in   ssa.Instruction
			name string
			idx  int
		}
		var all []cs
		n := 0
		for _, b := range fn.Blocks {
			for _, in := range b.Instrs {
				if snd, isSend := in.(*ssa.Send); isSend {
					n++
					all = append(all, cs{snd, "send", n})
					continue
				}
				if u, isRecv := in.(*ssa.UnOp); isRecv && u.Op == token.ARROW {
					n++
					all = append(all, cs{u, "recv", n})
					continue
				}
				ci, ok := in.(ssa.CallInstruction)
				if !ok {
					continue
				}
				n++
				c := ci.Common()
				name := ""
				switch {
				case c.IsInvoke():
					name = "(" + typeKey(c.Value.Type()) + ")." + c.Method.Name()
				case c.StaticCallee() != nil:
					name = fullName(c.StaticCallee())
				default:
					// a call through a local variable that only ever holds one function literal
					if f := singleClosureOf(c.Value); f != nil {
						name = fullName(f)
					}
				}
				all = append(all, cs{in, name, n})
			}
		}
		sort.SliceStable(all, func(i, j int) bool {
			pi, pj := all[i].in.Pos(), all[j].in.Pos()
			if pi != pj && pi.IsValid() && pj.IsValid() {
				return pi < pj
			}
			return all[i].idx < all[j].idx
		})
		cnt := map[string]int{}
		for _, c := range all {
			if c.name == "" {
				continue
			}
			cnt[c.name]++
			m[c.in] = siteInfo{c.name, cnt[c.name]}
		}
		E.siteOrds[fn] = m
	}
	si, ok := m[site]
	if !ok || si.name != callee {
		return 0
	}
	return si.ord
}

type siteInfo struct {
	name string
	ord  int
}

// iterKey: the ghost key of a range iterator, named after its function and SSA register (deterministic across runs)
func iterKey(v *ssa.Range) string {
	fn := ""
	if v.Parent() != nil {
		fn = v.Parent().Name()
	}
	return "iter!" + fn + "." + v.Name()
}

func sortedFieldNames[T any](m map[string]T) []string {
	ks := make([]string, 0, len(m))
	for k := range m {
		ks = append(ks, k)
	}
	sort.Strings(ks)
	return ks
}

// spawnPre: the preconditions of a function started with `go` hold where it is started (arguments and captured
// variables as they are at the spawn).  Clauses that name a logical variable of the spawned function (`ghost`)
// say how that variable is chosen and are not checkable here.
func (x *Exec) spawnPre(st *State, fr *Frame, g *ssa.Go) {
	if x.dry || g.Call.IsInvoke() {
		return
	}
	var fn *ssa.Function
	var binds []Val
	switch v := g.Call.Value.(type) {
	case *ssa.Function:
		fn = v
	case *ssa.MakeClosure:
		fn, _ = v.Fn.(*ssa.Function)
		binds = x.reg(st, fr, v).Bindings
	}
	if fn == nil {
		return
	}
	fc := x.E.contractFor(fn)
	if fc == nil || len(fc.Requires) == 0 {
		return
	}
	env := &Env{x: x, st: st, old: st, vars: map[string]Val{}, pkgPath: x.E.pkgOfContract(fc), fc: fc}
	if len(fn.FreeVars) > 0 {
		if len(binds) != len(fn.FreeVars) {
			return
		}
		env.fr = &Frame{fn: fn, fc: fc, freeVars: binds}
	}
	for i, p := range fn.Params {
		if i < len(g.Call.Args) {
			env.vars[p.Name()] = x.reg(st, fr, g.Call.Args[i])
		}
	}
	where := x.pos(g.Pos())
	for _, r := range fc.Requires {
		skip := false
		for _, gv := range fc.Ghost {
			if mentionsIdent(r.E, gv.Name) {
				skip = true
			}
		}
		if skip {
			continue
		}
		x.oblige(st, "pre", "go:"+shortName(fc.Name)+":"+labelOr(r, "requires"), x.evalBool(env, r.E), r.Src, where)
	}
}

func mentionsIdent(e *SExpr, name string) bool {
	if e == nil {
		return false
	}
	if e.K == "ident" && e.Name == name {
		return true
	}
	if mentionsIdent(e.X, name) || mentionsIdent(e.Y, name) || mentionsIdent(e.Z, name) {
		return true
	}
	for _, a := range e.Args {
		if mentionsIdent(a, name) {
			return true
		}
	}
	return false
}
