package main

// Package-level map literals read from the source on every run (so an edited
// row changes the proof), and row-by-row obligations against an oracle table.

import (
	"fmt"
	"go/ast"
	"go/constant"
	"go/types"
	"math/big"
	"sort"
	"strings"

	"golang.org/x/tools/go/ssa"
)

type literalRow struct {
	Key    string
	Leaves []*big.Int // one per leaf of the element type (nil func/pointer = 0)
	Pos    string
}

type OracleTable struct {
	Name   string
	Fields []string
	Rows   map[string][]*big.Int
	File   string
}

type RowCheck struct {
	Global  string
	Oracle  string
	Ensures []Clause
	File    string
	Line    int
}

func (E *Engine) literalRows(globalKey string) ([]literalRow, bool) {
	if r, ok := E.litCache[globalKey]; ok {
		return r, r != nil
	}
	if E.litCache == nil {
		E.litCache = map[string][]literalRow{}
	}
	E.litCache[globalKey] = nil
	i := strings.LastIndex(globalKey, ".")
	pkgPath, name := globalKey[:i], globalKey[i+1:]
	pp := E.L.PPkgs[pkgPath]
	sp := E.L.Pkgs[pkgPath]
	if pp == nil || sp == nil {
		return nil, false
	}
	// the map must not be updated anywhere in its package
	if g, ok := sp.Members[name].(*ssa.Global); ok {
		for _, f := range allFunctions(E.L.Prog, sp) {
			for _, b := range f.Blocks {
				for _, in := range b.Instrs {
					if mu, ok := in.(*ssa.MapUpdate); ok {
						if ld, ok := mu.Map.(*ssa.UnOp); ok && ld.X == g && f.Name() != "init" {
							return nil, false
						}
					}
					if st, ok := in.(*ssa.Store); ok && st.Addr == g && f.Name() != "init" {
						return nil, false
					}
				}
			}
		}
	}
	tc := &TypeCtx{}
	var rows []literalRow
	found := false
	for _, file := range pp.Syntax {
		for _, d := range file.Decls {
			gd, ok := d.(*ast.GenDecl)
			if !ok {
				continue
			}
			for _, sp := range gd.Specs {
				vs, ok := sp.(*ast.ValueSpec)
				if !ok {
					continue
				}
				for ni, n := range vs.Names {
					if n.Name != name || ni >= len(vs.Values) {
						continue
					}
					cl, ok := vs.Values[ni].(*ast.CompositeLit)
					if !ok {
						return nil, false
					}
					mt, ok := pp.TypesInfo.TypeOf(cl).Underlying().(*types.Map)
					if !ok {
						return nil, false
					}
					nl := tc.nleaves(mt.Elem())
					for _, el := range cl.Elts {
						kv, ok := el.(*ast.KeyValueExpr)
						if !ok {
							return nil, false
						}
						ktv := pp.TypesInfo.Types[kv.Key]
						if ktv.Value == nil || ktv.Value.Kind() != constant.String {
							return nil, false
						}
						row := literalRow{Key: constant.StringVal(ktv.Value), Leaves: make([]*big.Int, nl), Pos: E.L.Fset.Position(kv.Pos()).String()}
						for i := range row.Leaves {
							row.Leaves[i] = big.NewInt(0)
						}
						if !E.fillLeaves(pp.TypesInfo, tc, mt.Elem(), kv.Value, row.Leaves) {
							return nil, false
						}
						rows = append(rows, row)
					}
					found = true
				}
			}
		}
	}
	if !found {
		return nil, false
	}
	E.litCache[globalKey] = rows
	return rows, true
}

func (E *Engine) fillLeaves(info *types.Info, tc *TypeCtx, t types.Type, e ast.Expr, out []*big.Int) bool {
	if tv, ok := info.Types[e]; ok && tv.Value != nil {
		switch tv.Value.Kind() {
		case constant.Int:
			v, _ := new(big.Int).SetString(tv.Value.ExactString(), 10)
			out[0] = v
			return true
		case constant.Bool:
			if constant.BoolVal(tv.Value) {
				out[0] = big.NewInt(1)
			}
			return true
		case constant.String:
			if len(out) < 3 {
				return false
			}
			sv := constant.StringVal(tv.Value)
			out[0] = new(big.Int).Set(E.strID(sv).C)
			out[1] = big.NewInt(0)
			out[2] = big.NewInt(int64(len(sv)))
			E.strByRef[E.strID(sv).String()] = sv
			return true
		}
		return false
	}
	if id, ok := e.(*ast.Ident); ok && id.Name == "nil" {
		return true
	}
	cl, ok := e.(*ast.CompositeLit)
	if !ok {
		return false
	}
	st, ok := t.Underlying().(*types.Struct)
	if !ok {
		return false
	}
	for i, el := range cl.Elts {
		fi := i
		val := el
		if kv, ok := el.(*ast.KeyValueExpr); ok {
			fi = -1
			for j := 0; j < st.NumFields(); j++ {
				if id, ok := kv.Key.(*ast.Ident); ok && st.Field(j).Name() == id.Name {
					fi = j
				}
			}
			val = kv.Value
		}
		if fi < 0 || fi >= st.NumFields() {
			return false
		}
		off, ft := tc.fieldRange(t, fi)
		if !E.fillLeaves(info, tc, ft, val, out[off:off+tc.nleaves(ft)]) {
			return false
		}
	}
	return true
}

// literalMapFact: a value read from a never-updated literal map is one of its rows.
func (E *Engine) literalMapFact(x *Exec, globalKey string, mt *types.Map, val Val, present *Term) *Term {
	rows, ok := E.literalRows(globalKey)
	if !ok || len(rows) > 400 {
		return nil
	}
	seen := map[string]bool{}
	var alts []*Term
	for _, r := range rows {
		var eqs []*Term
		sig := ""
		for i, l := range r.Leaves {
			if i < len(val.L) && val.L[i].S.K == SInt {
				eqs = append(eqs, Eq(val.L[i], BigC(l)))
			}
			sig += l.String() + ","
		}
		if seen[sig] {
			continue
		}
		seen[sig] = true
		alts = append(alts, And(eqs...))
	}
	E.noteAssumption("literal package-level maps never updated outside init are read as their initialiser rows (" + globalKey + ")")
	return Implies(present, Or(alts...))
}

// literalMapKeyFact: membership in a never-updated literal map with string keys
// is equality with one of its keys (only for small maps).
func (E *Engine) literalMapKeyFact(x *Exec, st *State, globalKey string, key Val, val Val, present *Term) *Term {
	rows, ok := E.literalRows(globalKey)
	if !ok || len(rows) > 8 {
		return nil
	}
	var alts, facts []*Term
	for _, r := range rows {
		keq := x.strEq(st, key, E.stringConst(x, r.Key, types.Typ[types.String]))
		alts = append(alts, keq)
		if len(r.Leaves) == len(val.L) {
			var eqs []*Term
			for i, l := range r.Leaves {
				if val.L[i].S.K == SInt {
					eqs = append(eqs, Eq(val.L[i], BigC(l)))
				}
			}
			facts = append(facts, Implies(keq, And(eqs...)))
		}
	}
	facts = append(facts, Eq(present, Or(alts...)))
	return And(facts...)
}

// VerifyRows generates one obligation per (row, clause).
func (E *Engine) VerifyRows() {
	for _, cf := range E.files {
		for _, rc := range cf.RowChecks {
			pkg := E.pkgOfFile[cf]
			E.verifyRowCheck(rc, pkg)
		}
	}
}

func (E *Engine) verifyRowCheck(rc *RowCheck, pkgPath string) {
	key := pkgPath + "." + rc.Global
	rows, ok := E.literalRows(key)
	fail := func(label, msg string) {
		name := fmt.Sprintf("%s.%s#row:%s", shortPkg(pkgPath), rc.Global, label)
		o := &Oblig{Name: name, Fn: rc.Global, Kind: "row", Label: label, Src: msg, Where: rc.File}
		o.Queries = append(o.Queries, &Query{Goal: FalseT, Result: "error", Solver: "none", Output: msg})
		E.obligs[name] = o
		E.order = append(E.order, name)
	}
	if !ok {
		fail("literal", "global "+key+" is not a never-updated map literal")
		return
	}
	var tab *OracleTable
	for _, cf := range E.files {
		if t, ok := cf.Tables[rc.Oracle]; ok {
			tab = t
		}
	}
	if tab == nil {
		fail("oracle", "oracle table "+rc.Oracle+" not found")
		return
	}
	sp := E.L.Pkgs[pkgPath]
	g, _ := sp.Members[rc.Global].(*ssa.Global)
	mt := g.Type().(*types.Pointer).Elem().Underlying().(*types.Map)
	sort.Slice(rows, func(i, j int) bool { return rows[i].Key < rows[j].Key })
	for _, r := range rows {
		orow, has := tab.Rows[r.Key]
		if !has {
			fail("unknown:"+r.Key, fmt.Sprintf("row %q of %s has no entry in oracle table %s", r.Key, rc.Global, rc.Oracle))
			continue
		}
		x := &Exec{E: E, tc: &TypeCtx{}}
		st := x.newState()
		rowVal := Val{T: mt.Elem()}
		for _, l := range r.Leaves {
			rowVal.L = append(rowVal.L, BigC(l))
		}
		vars := map[string]Val{"row": rowVal}
		for i, f := range tab.Fields {
			vars["oracle."+f] = mathVal(BigC(orow[i]))
		}
		env := &Env{x: x, st: st, old: st, vars: vars, pkgPath: pkgPath}
		for _, c := range rc.Ensures {
			name := fmt.Sprintf("%s.%s[%s]#row:%s", shortPkg(pkgPath), rc.Global, r.Key, labelOr(c, "ensures"))
			o := &Oblig{Name: name, Fn: rc.Global + "[" + r.Key + "]", Kind: "row", Label: labelOr(c, "ensures"), Src: c.Src, Where: r.Pos}
			E.obligs[name] = o
			E.order = append(E.order, name)
			func() {
				defer func() {
					if rr := recover(); rr != nil {
						if ee, ok := rr.(evalError); ok {
							o.Queries = append(o.Queries, &Query{Goal: FalseT, Result: "error", Solver: "none", Output: "contract evaluation: " + ee.msg})
							return
						}
						panic(rr)
					}
				}()
				g := x.evalBool(env, c.E)
				if g.IsTrue() {
					o.Queries = append(o.Queries, &Query{Goal: g, Result: "unsat", Solver: "simplifier", Path: "row " + r.Key})
				} else {
					o.Queries = append(o.Queries, &Query{Hyps: append([]*Term(nil), st.pc...), Goal: g, Path: "row " + r.Key})
				}
			}()
		}
	}
}

// VerifyWriteSets: "writeset T.f in f1, f2": every SSA store to field f of
// struct T in the package must occur in one of the listed functions (the
// backing of `rely stable` assumptions about unsynchronised shared fields).
func (E *Engine) VerifyWriteSets() {
	for _, cf := range E.files {
		pkgPath := E.pkgOfFile[cf]
		for _, ws := range cf.WriteSets {
			E.verifyWriteSet(ws, pkgPath, cf.Path)
		}
	}
}

func (E *Engine) verifyWriteSet(spec, pkgPath, file string) {
	parts := strings.SplitN(spec, " in ", 2)
	if len(parts) != 2 {
		E.configError(file + ": writeset T.f in f1, f2")
		return
	}
	tf := strings.SplitN(strings.TrimSpace(parts[0]), ".", 2)
	if len(tf) != 2 {
		E.configError(file + ": writeset T.f in f1, f2")
		return
	}
	allowed := map[string]bool{}
	for _, a := range strings.Split(parts[1], ",") {
		allowed[strings.TrimSpace(a)] = true
	}
	sp := E.L.Pkgs[pkgPath]
	if sp == nil {
		return
	}
	base := fmt.Sprintf("%s.%s.%s#writeset", shortPkg(pkgPath), tf[0], tf[1])
	found := 0
	mk := func(name, src, where string, ok bool) {
		if _, dup := E.obligs[name]; dup {
			return
		}
		o := &Oblig{Name: name, Fn: tf[0] + "." + tf[1], Kind: "writeset", Label: tf[1], Src: src, Where: where}
		if ok {
			o.Queries = append(o.Queries, &Query{Goal: TrueT, Result: "unsat", Solver: "ssa-scan", Path: "all stores"})
		} else {
			o.Queries = append(o.Queries, &Query{Goal: FalseT, Result: "error", Solver: "ssa-scan", Output: src})
		}
		E.obligs[name] = o
		E.order = append(E.order, name)
	}
	for _, f := range allFunctions(E.L.Prog, sp) {
		for _, b := range f.Blocks {
			for _, in := range b.Instrs {
				st, ok := in.(*ssa.Store)
				if !ok {
					continue
				}
				fa, ok := st.Addr.(*ssa.FieldAddr)
				if !ok {
					continue
				}
				sT := derefT(fa.X.Type())
				n, ok := sT.(*types.Named)
				if !ok || n.Obj().Name() != tf[0] {
					continue
				}
				stt := sT.Underlying().(*types.Struct)
				if stt.Field(fa.Field).Name() != tf[1] {
					continue
				}
				found++
				fn := relName(f)
				if !allowed[fn] {
					pos := E.L.Fset.Position(st.Pos())
					mk(base+":"+fn, fmt.Sprintf("%s.%s is written by %s, which is not in the declared write set", tf[0], tf[1], fn),
						fmt.Sprintf("%s:%d", strings.TrimPrefix(pos.Filename, repoSrc+"/"), pos.Line), false)
				}
			}
		}
	}
	mk(base+":declared", fmt.Sprintf("%d stores to %s.%s scanned; writers outside {%s} are reported separately", found, tf[0], tf[1], parts[1]), file, found > 0)
}
