#!/bin/bash
# Builds the verifier from files on disk only (x/tools v0.29.0 is vendored).
set -e
export GOPROXY=off GOSUMDB=off GOTOOLCHAIN=local GOFLAGS=-mod=vendor
cd /verif/engine
mkdir -p /verif/bin
go build -o /verif/bin/govc .
echo "govc built"
