#!/bin/bash
# regression: every claimed property on the current tree
cd /verif
for p in $(python3 -c "import json; print(' '.join(c['property_id'] for c in json.load(open('MANIFEST.json'))['checks']))"); do
  ./check $p "$@" 2>&1 | grep -E "^VIOLATION|^KNOWN|^UNDECIDED|^property" | sed 's/replay=[^ ]* //' | cut -c1-220
done
