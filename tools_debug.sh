#!/bin/bash
# usage: tools_debug.sh <prop> <obligation-substring> [only]  — prints a model of the ground part of the first matching failing query
cd /verif
rm -f /tmp/govc_debug_ground_*.smt2
GOVC_DEBUG_OBLIG="$2" ./check $1 ${3:+--only $3} --timeout 2 >/dev/null 2>&1
for f in /tmp/govc_debug_ground_*.smt2; do
  r=$(timeout 30 z3-new -T:20 $f | head -1)
  echo "$f: $r"
  if [ "$r" = "sat" ]; then
    vars=$(grep -o "\(sk\|h\|in\)\.[a-zA-Z_.]*![0-9]*" $f | sort -u | grep -v "ref!\|off!\|cap!" | head -40 | tr '\n' ' ')
    sed "s/(check-sat)/(check-sat)\n(get-value ($vars))/" $f > /tmp/g2.smt2
    timeout 30 z3-new -T:20 /tmp/g2.smt2 | head -45
    break
  fi
done
